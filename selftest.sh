#!/bin/sh
# binding demonstration: corrupt one recorded field at a time, the matching clause must fire (DESIGN.md 6.4)
exec /venv/bin/python "$(dirname "$0")/harness/selftest.py" "$@"
