------------------------------- MODULE MCToml -------------------------------
(* bounded model of the TOML loader: every (kind, forms, limits form) is one state *)
EXTENDS Toml
-----------------------------------------------------------------------------
VARIABLES kind, forms, lim, cl      \* cl = Class(kind, forms), carried so that the driver can stratify its sample
vars == <<kind, forms, lim, cl>>
AllowedForms(k, i) == IF k = "LinReg" THEN Schema(k)[i].types \cup {"absent"} ELSE Forms
Init == /\ kind \in Kinds
        /\ forms \in [1..5 -> Forms]
        /\ \A i \in 1..5 : IF i <= Len(Schema(kind)) THEN forms[i] \in AllowedForms(kind, i) ELSE forms[i] = "absent"
        /\ lim \in {"absent", "ok"}
        /\ cl = Class(kind, forms)
Next == UNCHANGED vars
Spec == Init /\ [][Next]_vars

\* the classification is total, and a case is handed to the constructor only when every given value
\* has an accepted type and no mandatory key is missing
ClassSound ==
  /\ cl = Class(kind, forms)
  /\ Class(kind, forms) \in {"Either", "KeyError", "ValueError", "CtorOrValueError", "Ctor"}
  /\ Class(kind, forms) = "Ctor" <=> (\A i \in DOMAIN Schema(kind) :
                                         /\ forms[i] = "absent" => Schema(kind)[i].opt
                                         /\ forms[i] # "absent" => forms[i] \in Schema(kind)[i].types)
  /\ kind = "LinReg" => Class(kind, forms) \in {"Ctor", "KeyError"}
=============================================================================
