------------------------------ MODULE MCInterp ------------------------------
(***************************************************************************)
(* Properties of the table semantics of Interp.tla (C10), checked by TLC on *)
(* every small integer grid and every query point of a half-integer lattice *)
(* that extends beyond the grid on all sides:                               *)
(*   GridExact   on a grid point every admissible value is the tabulated one *)
(*   Functional  on a grid line (and in 1-D) the value is unique             *)
(*   InRange     every admissible value lies within the corner values of    *)
(*               the enclosing cell                                         *)
(*   Clamped     outside the table the values are those of the nearest edge *)
(*   SignIgnored the sign of the query is ignored                           *)
(*   ConstTable  a table of equal entries has that entry everywhere          *)
(***************************************************************************)
EXTENDS Interp, FiniteSets, TLC

CONSTANTS XMax, FMax
VARIABLES xs, ys, f, qx, qy
vars == <<xs, ys, f, qx, qy>>

Axes == { s \in UNION {[1..n -> 0..XMax] : n \in 1..3} : \A i \in 1..(Len(s) - 1) : s[i] < s[i + 1] }
YAxes == { s \in UNION {[1..n -> 1..XMax] : n \in 1..2} : \A i \in 1..(Len(s) - 1) : s[i] < s[i + 1] }
Half(k) == DE(5 * k, -1)                      \* k / 2

Init == /\ xs \in Axes /\ ys \in YAxes
        /\ f \in [DOMAIN ys -> [DOMAIN xs -> 0..FMax]]
        /\ qx = -99 /\ qy = -99
\* one step: pick the query point (so that TLC's workers share the grids)
Next == /\ qx = -99
        /\ qx' \in (-2)..(2 * XMax + 2) /\ qy' \in (-2)..(2 * XMax + 2)
        /\ UNCHANGED <<xs, ys, f>>
Spec == Init /\ [][Next]_vars

DX == [i \in DOMAIN xs |-> DInt(xs[i])]
DY == [i \in DOMAIN ys |-> DInt(ys[i])]
DF == [i \in DOMAIN ys |-> [j \in DOMAIN xs |-> DInt(f[i][j])]]
Val(x, y) == Lin2(DX, DY, DF, DAbs(x), DAbs(y))
V == Val(Half(qx), Half(qy))

FrEq(a, b) == DEq(a[1] \otimes b[2], b[1] \otimes a[2])
OnX == \E j \in DOMAIN xs : 2 * xs[j] = qx
OnY == \E i \in DOMAIN ys : 2 * ys[i] = qy
AllF == {f[i][j] : i \in DOMAIN ys, j \in DOMAIN xs}
FMinAll == CHOOSE m \in AllF : \A z \in AllF : m <= z
FMaxAll == CHOOSE m \in AllF : \A z \in AllF : m >= z
CX(k) == IF k < 2 * xs[1] THEN 2 * xs[1] ELSE IF k > 2 * xs[Len(xs)] THEN 2 * xs[Len(xs)] ELSE k
CY(k) == IF k < 2 * ys[1] THEN 2 * ys[1] ELSE IF k > 2 * ys[Len(ys)] THEN 2 * ys[Len(ys)] ELSE k
AbsI(k) == IF k < 0 THEN 0 - k ELSE k

Q == qx # -99      \* a query point has been chosen
NonEmpty    == Q => V # {}
GridExact   == (Q /\ OnX /\ OnY) =>
                 \A v \in V : FrEq(v, Fr(DInt(f[CHOOSE i \in DOMAIN ys : 2 * ys[i] = qy][CHOOSE j \in DOMAIN xs : 2 * xs[j] = qx]), One))
Functional  == (Q /\ (OnX \/ OnY \/ Len(xs) = 1 \/ Len(ys) = 1)) => \A v, w \in V : FrEq(v, w)
InRange     == Q => \A v \in V : FrLeq(Fr(DInt(FMinAll), One), v) /\ FrLeq(v, Fr(DInt(FMaxAll), One))
Clamped     == Q => \A v \in V : \E w \in Val(Half(CX(AbsI(qx))), Half(CY(AbsI(qy)))) : FrEq(v, w)
SignIgnored == Q => \A v \in V : \E w \in Val(Half(0 - qx), Half(0 - qy)) : FrEq(v, w)
ConstTable  == (Q /\ Cardinality(AllF) = 1) => \A v \in V : FrEq(v, Fr(DInt(FMinAll), One))
=============================================================================
