------------------------------- MODULE MCEdit -------------------------------
(***************************************************************************)
(* Bounded model of the edit / configuration state machine of one System.   *)
(* Every public editing call is one action with an accept and a reject      *)
(* branch; the arguments range over small universes that deliberately       *)
(* overlap (a rail universe that contains a component name, references by   *)
(* name or by rail, duplicate and empty reference lists).                   *)
(* TLC checks WellFormed (C14) and RejectedUnchanged (C15) exhaustively and *)
(* the labelled state graph / simulated behaviours are replayed into the    *)
(* real library.                                                            *)
(***************************************************************************)
EXTENDS SysTree

CONSTANTS NameU,      \* component names
          RailU,      \* rail argument universe (contains "")
          ClassU,     \* Python class names used as new components
          PayU,       \* opaque payload versions
          GroupU,     \* group argument universe
          ConfU,      \* phase configurations for set_comp_phases
          SysPhU,     \* argument universe of set_sys_phases
          MaxRefs,    \* longest reference list
          InitName    \* name of the first source

VARIABLES sys, outcome
vars == <<sys, outcome>>

RefU    == (NameU \cup RailU) \ {""}
RECURSIVE SeqsUpTo(_, _)
SeqsUpTo(U, k) == IF k = 0 THEN {<<>>}
                  ELSE LET r == SeqsUpTo(U, k - 1) IN
                       r \cup {Append(s, u) : s \in {x \in r : Len(x) = k - 1}, u \in U}
RefSeqU == SeqsUpTo(RefU, MaxRefs)

Step(ok, eff) == IF ok THEN sys' = eff /\ outcome' = "ok"
                 ELSE UNCHANGED sys /\ outcome' = "rej"

Do(op, a) == OpModelled(sys, op, a) /\ Step(OpOK(sys, op, a), OpEff(sys, op, a))

AddSource(name, cls, pay, rail, group) ==
  Do("add_source", [comp |-> [name |-> name, cls |-> cls, pay |-> pay],
                    rail |-> rail, group |-> group])
AddComp(refs, aslist, name, cls, pay, rail, group) ==
  (~aslist => Len(refs) = 1) /\
  Do("add_comp", [refs |-> refs, aslist |-> aslist,
                  comp |-> [name |-> name, cls |-> cls, pay |-> pay],
                  rail |-> rail, group |-> group])
ChangeComp(target, name, cls, pay, rail, group) ==
  Do("change_comp", [target |-> target,
                     comp |-> [name |-> name, cls |-> cls, pay |-> pay],
                     rail |-> rail, group |-> group])
DelComp(target, delchilds) ==
  Do("del_comp", [target |-> target, delchilds |-> delchilds])
SetSysPhases(phases) == Do("set_sys_phases", [phases |-> phases])
SetCompPhases(ref, conf) == Do("set_comp_phases", [ref |-> ref, conf |-> conf])

Init == /\ sys = NewSystem([comp |-> [name |-> InitName, cls |-> "Source", pay |-> CHOOSE p \in PayU : TRUE],
                            rail |-> "", group |-> ""])
        /\ outcome = "ok"

Next ==
  \/ \E name \in NameU, cls \in ClassU, pay \in PayU, rail \in RailU, group \in GroupU :
        AddSource(name, cls, pay, rail, group)
  \/ \E refs \in RefSeqU, aslist \in BOOLEAN, name \in NameU, cls \in ClassU,
        pay \in PayU, rail \in RailU, group \in GroupU :
        AddComp(refs, aslist, name, cls, pay, rail, group)
  \/ \E target \in RefU, name \in NameU, cls \in ClassU, pay \in PayU,
        rail \in RailU, group \in GroupU :
        ChangeComp(target, name, cls, pay, rail, group)
  \/ \E target \in RefU, delchilds \in BOOLEAN : DelComp(target, delchilds)
  \/ \E phases \in SysPhU : SetSysPhases(phases)
  \/ \E ref \in RefU, conf \in ConfU : SetCompPhases(ref, conf)

Spec == Init /\ [][Next]_vars

-----------------------------------------------------------------------------
TypeOK == /\ outcome \in {"ok", "rej"}
          /\ Names(sys) \subseteq NameU
\* C14
InvWellFormed == WellFormed(sys)
\* C15
RejectedUnchanged == [][outcome' = "rej" => UNCHANGED sys]_vars
\* sanity: the first source can never disappear together with all others
InvHasSource == Sources(sys) # {}
-----------------------------------------------------------------------------
\* constant values that a .cfg file cannot spell
Ph(n)       == [name |-> n, dur |-> 1]
CfgConf1    == {[t |-> "list", v |-> <<"p">>]}
CfgConf3    == {[t |-> "list", v |-> <<"p">>], [t |-> "map", v |-> <<"q">>], [t |-> "bad", v |-> <<>>]}
CfgSysPh1   == {<<>>}
CfgSysPh4   == {<<>>, <<Ph("p"), Ph("q")>>, <<Ph("p")>>, <<Ph("N/A"), Ph("p")>>}
=============================================================================
