------------------------------ MODULE TraceToml ------------------------------
(* Validation of executed TOML loader cases against Toml.tla.
   A case: [id, kind, forms, lim, ff = outcome of from_file ("ok" | exception class),
            ct = outcome of the constructor on the same values, same = payloads / params() / limits()
            rows / solved probe tables all equal (compared by the harness through canonical digests
            da, db and probe digests pa, pb handed over here)] *)
EXTENDS Toml, TLC, Json, IOUtils

Batch == JsonDeserialize(IOEnv.TRACE_FILE)
VARIABLES ci, verd, stat
tvars == <<ci, verd, stat>>
Cl(name, app, cond) == <<name, app, IF app THEN cond ELSE TRUE>>

CaseClauses(c) ==
  LET cl == Class(c.kind, c.forms) IN
  << Cl("C13.KeyError", cl = "KeyError", c.ff = "KeyError"),
     Cl("C13.TypeGate", cl = "ValueError", c.ff = "ValueError"),
     Cl("C13.BothFaults", cl = "Either", c.ff \in {"KeyError", "ValueError"}),
     \* an integer for a float-only key: rejected with ValueError, or loaded like the constructor call with that integer
     Cl("C13.TypeGate.IntForFloat", cl = "CtorOrValueError",
        \/ c.ff = "ValueError"
        \/ (c.ff = c.ct /\ (c.ff = "ok" => (c.da = c.db /\ c.ra = c.rb /\ c.pa = c.pb)))),
     \* handed to the constructor: same verdict, and when it builds a component, the same component
     Cl("C13.SameVerdict", cl = "Ctor", c.ff = c.ct),
     Cl("C13.Equal.Payload", cl = "Ctor" /\ c.ct = "ok" /\ c.ff = "ok", c.da = c.db),
     Cl("C13.Equal.Rows", cl = "Ctor" /\ c.ct = "ok" /\ c.ff = "ok", c.ra = c.rb),
     Cl("C13.Equal.Probe", cl = "Ctor" /\ c.ct = "ok" /\ c.ff = "ok", c.pa = c.pb),
     \* the file is the only input of the loader: loading it a second time gives the same outcome and component
     Cl("C13.Reload", TRUE, c.ff2 = c.ff /\ c.da2 = c.da),
     \* ... and changes nothing else: a fixed reference system built by the constructors (default limits, default optional
     \* parameters) shows the same params() / limits() rows and the same solved table as before any file was loaded
     Cl("C13.Isolated", c.ref # "", c.ref = c.ref0) >>

AllClauseNames == {"C13.KeyError", "C13.TypeGate", "C13.TypeGate.IntForFloat", "C13.BothFaults", "C13.SameVerdict", "C13.Equal.Payload",
                   "C13.Equal.Rows", "C13.Equal.Probe", "C13.Reload", "C13.Isolated", "events"}
RECURSIVE SetToSeq(_)
SetToSeq(X) == IF X = {} THEN <<>> ELSE LET x == CHOOSE x \in X : TRUE IN <<x>> \o SetToSeq(X \ {x})
TInit == ci = 1 /\ verd = <<>> /\ stat = [c \in AllClauseNames |-> 0]
Step2(c, cls, bad) ==
  /\ verd' = verd \o SetToSeq({[tid |-> c.id, k |-> 1, clause |-> cls[i][1], op |-> c.kind, phase |-> ""] : i \in bad})
  /\ stat' = [nm \in AllClauseNames |-> stat[nm] + (IF nm = "events" THEN 1
                 ELSE Cardinality({i \in DOMAIN cls : cls[i][1] = nm /\ cls[i][2]}))]
  /\ ci' = ci + 1
Step1(c, cls) == Step2(c, cls, {i \in DOMAIN cls : cls[i][2] /\ ~cls[i][3]})
Step == ci <= Len(Batch) /\ Step1(Batch[ci], CaseClauses(Batch[ci]))
TSpec == TInit /\ [][Step]_tvars
Finished == ci > Len(Batch) => JsonSerialize(IOEnv.OUT_FILE, [verd |-> verd, stat |-> stat])
=============================================================================
