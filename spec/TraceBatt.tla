------------------------------ MODULE TraceBatt ------------------------------
(***************************************************************************)
(* Validation of recorded batt_life() runs against Batt.tla.                *)
(* A case: [id, battery, known, is_source, cutoff, phases = <<[name,dur]>>, *)
(*   events = << [k = "probe" | "solve" | "deplete", raised, ...] >>,        *)
(*   outcome, exc, log = <<<<t, cap, volt, rs>>>>, src0, src1]              *)
(*   probe  : ret = <<cap, volt, rs>>                                        *)
(*   solve  : phase, vo, rs = the battery Source's parameters during the    *)
(*            solve, iref = the battery's Iout in solve(phase) of a deep    *)
(*            copy taken at that moment (has_ref)                           *)
(*   deplete: dt, i = the arguments handed to dfunc, ret = <<cap,volt,rs>>  *)
(***************************************************************************)
EXTENDS Dec, FiniteSets, TLC, Json, IOUtils

Batch == JsonDeserialize(IOEnv.TRACE_FILE)
VARIABLES ci, verd, stat
vars == <<ci, verd, stat>>
Cl(name, app, cond) == <<name, app, IF app THEN cond ELSE TRUE>>

EqX(a, b) == DLeq(DAbs(a \ominus b), DE(1, -9) \otimes DMax(DAbs(a), DAbs(b)))
Alive(b, cutoff) == DLt(DZero, DJ(b[1])) /\ DLt(cutoff, DJ(b[2]))

\* control skeleton of the run as Batt.tla prescribes it: probe, then solve/deplete pairs while alive
Kinds(c) == [j \in DOMAIN c.events |-> c.events[j].k]
NP(c) == Len(c.phases)
PhaseAt(c, m) == IF NP(c) = 0 THEN "" ELSE c.phases[((m - 1) % NP(c)) + 1].name
DurAt(c, m)   == DJ(c.phases[((m - 1) % NP(c)) + 1].dur)

\* state of the battery model before step m (m = 1: the probe)
Before(c, m) == IF m = 1 THEN c.events[1].ret ELSE c.events[2 * m - 1].ret

CaseClauses(c) ==
  LET ev     == c.events
      n      == Len(ev)
      cut    == DJ(c.cutoff)
      valid  == c.known /\ c.is_source
      probed == n >= 1 /\ ev[1].k = "probe" /\ ~ev[1].raised
      \* number of complete solve/deplete pairs
      M      == IF n >= 1 THEN (n - 1) \div 2 ELSE 0
      shapeOK == /\ n >= 1 /\ ev[1].k = "probe"
                 /\ \A j \in 2..n : ev[j].k = (IF j % 2 = 0 THEN "solve" ELSE "deplete")
                 /\ \A j \in 1..(n - 1) : ~ev[j].raised
      lastRaised == n >= 1 /\ ev[n].raised
      complete == shapeOK /\ ~lastRaised /\ n % 2 = 1
      cap0   == DJ(ev[1].ret[1])
      \* rows the log must have: the probe, then every alive deplete result
      AliveM == {m \in 1..M : Alive(ev[2 * m + 1].ret, cut)}
  IN
  << Cl("C18.NotASource", ~valid, c.outcome = "exc" /\ c.exc = "ValueError" /\ n = 0),
     Cl("C17.BattRestored", c.known /\ c.is_source, c.src0 = c.src1),
     Cl("C18.Machine.Shape", valid, shapeOK),
     \* a failing callback / solver ends the run with that failure; otherwise it returns
     Cl("C18.Machine.Outcome", valid /\ shapeOK, (c.outcome = "exc") = lastRaised),
     \* the loop continues exactly while the last battery state is alive
     Cl("C18.Machine.Guard", valid /\ shapeOK /\ probed,
        /\ \A m \in 1..M : Alive(Before(c, m), cut)
        /\ complete => ~Alive(ev[n].ret, cut)),
     Cl("C18.SetSource", valid /\ shapeOK /\ probed,
        \A m \in 1..((n) \div 2) :
           LET b == Before(c, m) s == ev[2 * m] IN s.vo = b[2] /\ s.rs = b[3]),
     Cl("C18.PhaseOrder", valid /\ shapeOK /\ probed,
        \A m \in 1..(n \div 2) : ev[2 * m].phase = PhaseAt(c, m)),
     Cl("C18.Dt", valid /\ shapeOK /\ probed,
        \A m \in 1..M :
           LET d == ev[2 * m + 1] IN
           IF NP(c) = 0 THEN EqX(DJ(d.dt) \otimes DJ(d.i), cap0 \otimes DE(36, -1))
           ELSE DEq(DJ(d.dt), DurAt(c, m))),
     Cl("C18.Current", valid /\ shapeOK /\ probed,
        \* (the reference is solved on a system rebuilt from the projected state: its nodes are numbered differently,
        \*  so sums of child currents may differ in the last bit - exact class, 1e-9 relative)
        \A m \in 1..M : ev[2 * m].has_ref =>
           DLeq(DAbs(DJ(ev[2 * m + 1].i) \ominus DJ(ev[2 * m].iref)),
                DE(1, -9) \otimes (DAbs(DJ(ev[2 * m + 1].i)) \oplus DAbs(DJ(ev[2 * m].iref))))),
     Cl("C18.LogInitial", valid /\ c.outcome = "ok" /\ probed,
        Len(c.log) >= 1 /\ DIsZero(DJ(c.log[1][1])) /\ SubSeq(c.log[1], 2, 4) = ev[1].ret),
     Cl("C18.LogPrefix", valid /\ c.outcome = "ok" /\ complete /\ probed,
        /\ Len(c.log) = 1 + Cardinality(AliveM)
        /\ AliveM = 1..Cardinality(AliveM)
        /\ \A m \in AliveM : SubSeq(c.log[m + 1], 2, 4) = ev[2 * m + 1].ret
        /\ \A j \in DOMAIN c.log : j >= 2 => Alive(SubSeq(c.log[j], 2, 4), cut)),
     Cl("C18.TimeIncreasing", valid /\ c.outcome = "ok" /\ complete /\ probed /\ Len(c.log) = 1 + Cardinality(AliveM),
        \A m \in AliveM :
           /\ DLt(DJ(c.log[m][1]), DJ(c.log[m + 1][1]))
           /\ EqX(DJ(c.log[m + 1][1]), DJ(c.log[m][1]) \oplus DJ(ev[2 * m + 1].dt)))
  >>

AllClauseNames == {"C18.NotASource", "C17.BattRestored", "C18.Machine.Shape", "C18.Machine.Outcome", "C18.Machine.Guard",
                   "C18.SetSource", "C18.PhaseOrder", "C18.Dt", "C18.Current", "C18.LogInitial", "C18.LogPrefix",
                   "C18.TimeIncreasing", "events"}
RECURSIVE SetToSeq(_)
SetToSeq(X) == IF X = {} THEN <<>> ELSE LET x == CHOOSE x \in X : TRUE IN <<x>> \o SetToSeq(X \ {x})
Init == ci = 1 /\ verd = <<>> /\ stat = [c \in AllClauseNames |-> 0]
Step2(c, cls, bad) ==
  /\ verd' = verd \o SetToSeq({[tid |-> c.id, k |-> 1, clause |-> cls[i][1], op |-> c.battery, phase |-> ""] : i \in bad})
  /\ stat' = [nm \in AllClauseNames |-> stat[nm] + (IF nm = "events" THEN 1
                 ELSE Cardinality({i \in DOMAIN cls : cls[i][1] = nm /\ cls[i][2]}))]
  /\ ci' = ci + 1
Step1(c, cls) == Step2(c, cls, {i \in DOMAIN cls : cls[i][2] /\ ~cls[i][3]})
Step == ci <= Len(Batch) /\ Step1(Batch[ci], CaseClauses(Batch[ci]))
Next == Step
Spec == Init /\ [][Next]_vars
Finished == ci > Len(Batch) => JsonSerialize(IOEnv.OUT_FILE, [verd |-> verd, stat |-> stat])
=============================================================================
