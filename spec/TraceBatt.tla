------------------------------ MODULE TraceBatt ------------------------------
(***************************************************************************)
(* Validation of recorded batt_life() runs against Batt.tla.                *)
(* The observable steps of a run are the calls of the two callbacks; the    *)
(* solver calls in between are internal steps of the machine (Batt!SetSource*)
(* and Batt!SolveStep): they are checked where they were observed, but a    *)
(* run is not required to show them (an implementation may solve once for   *)
(* several identical steps).                                                *)
(* A case: [id, battery, known, is_source, cutoff, phases = <<[name,dur]>>, *)
(*   events = << probe, deplete_1, ..., deplete_D >>, tail, outcome, exc,    *)
(*   log = <<<<t, cap, volt, rs>>>>, src0, src1]                            *)
(*   probe  : raised, ret = <<cap, volt, rs>>                                *)
(*   deplete: raised, dt, i = the arguments handed to dfunc, ret,           *)
(*            iref (has_ref) = the battery's Iout in solve(phase of the      *)
(*            step) of a system rebuilt from the projected state with the   *)
(*            battery at its present state (the state returned last),       *)
(*            solves = the solver calls observed before the call:           *)
(*            [phase, vo, rs = the battery Source's parameters, raised]     *)
(*   tail   : solver calls after the last callback                          *)
(***************************************************************************)
EXTENDS Dec, FiniteSets, TLC, Json, IOUtils

Batch == JsonDeserialize(IOEnv.TRACE_FILE)
VARIABLES ci, verd, stat
vars == <<ci, verd, stat>>
Cl(name, app, cond) == <<name, app, IF app THEN cond ELSE TRUE>>

EqX(a, b) == DLeq(DAbs(a \ominus b), DE(1, -9) \otimes DMax(DAbs(a), DAbs(b)))
Alive(b, cutoff) == DLt(DZero, DJ(b[1])) /\ DLt(cutoff, DJ(b[2]))

\* control skeleton of the run as Batt.tla prescribes it: probe, then one depletion per step while alive
NP(c) == Len(c.phases)
PhaseAt(c, m) == IF NP(c) = 0 THEN "" ELSE c.phases[((m - 1) % NP(c)) + 1].name
DurAt(c, m)   == DJ(c.phases[((m - 1) % NP(c)) + 1].dur)

\* state of the battery model before step m = the state returned by the previous callback (m = 1: the probe)
Before(c, m) == c.events[m].ret

\* solver class: 20 tolerance units of the solver's own stopping rule (1e-8 absolute, 1e-5 relative)
CloseI(a, b) == DLeq(DAbs(a \ominus b), DInt(20) \otimes (DE(1, -8) \oplus (DE(1, -5) \otimes DMax(DAbs(a), DAbs(b)))))

CaseClauses(c) ==
  LET ev     == c.events
      n      == Len(ev)
      cut    == DJ(c.cutoff)
      valid  == c.known /\ c.is_source
      probed == n >= 1 /\ ev[1].k = "probe" /\ ~ev[1].raised
      \* number of depletion calls (the last one may have raised)
      ND      == IF n >= 1 THEN n - 1 ELSE 0
      solverRaised == \E j \in DOMAIN c.tail : c.tail[j].raised
      lastRaised == solverRaised \/ (n >= 1 /\ ev[n].raised)
      shapeOK == /\ n >= 1 /\ ev[1].k = "probe"
                 /\ \A j \in 2..n : ev[j].k = "deplete"
                 /\ \A j \in 1..(n - 1) : ~ev[j].raised
                 \* a solver call that raised ends the run: it is never followed by a callback
                 /\ \A j \in 1..n : \A q \in DOMAIN ev[j].solves : ~ev[j].solves[q].raised
                 /\ solverRaised => ~ev[n].raised
      complete == shapeOK /\ ~lastRaised
      \* completed depletion calls
      M      == IF n >= 1 /\ ev[n].raised THEN ND - 1 ELSE ND
      cap0   == DJ(ev[1].ret[1])
      \* rows the log must have: the probe, then every alive deplete result
      AliveM == {m \in 1..M : Alive(ev[m + 1].ret, cut)}
  IN
  << Cl("C18.NotASource", ~valid, c.outcome = "exc" /\ c.exc = "ValueError" /\ n = 0),
     Cl("C17.BattRestored", c.known /\ c.is_source, c.src0 = c.src1),
     Cl("C18.Machine.Shape", valid, shapeOK),
     \* a failing callback / solver ends the run with that failure; otherwise it returns
     Cl("C18.Machine.Outcome", valid /\ shapeOK, (c.outcome = "exc") = lastRaised),
     \* the loop continues exactly while the last battery state is alive
     Cl("C18.Machine.Guard", valid /\ shapeOK /\ probed,
        /\ \A m \in 1..ND : Alive(Before(c, m), cut)
        /\ solverRaised => Alive(ev[n].ret, cut)
        /\ complete => ~Alive(ev[n].ret, cut)),
     \* where a solver call was observed, the battery Source carried the battery's present state and the call was for
     \* the phase of the step - how the code does it today; private detail, recorded as notes (C18.Current and C18.Dt
     \* bind what the callbacks see)
     Cl("note.C18.SetSource", valid /\ shapeOK /\ probed,
        /\ \A m \in 1..ND : \A q \in DOMAIN ev[m + 1].solves :
              LET b == Before(c, m) sv == ev[m + 1].solves[q] IN sv.vo = b[2] /\ sv.rs = b[3]
        /\ \A q \in DOMAIN c.tail : c.tail[q].vo = ev[n].ret[2] /\ c.tail[q].rs = ev[n].ret[3]),
     \* ... and the call was for the phase of the step
     Cl("note.C18.PhaseOrder", valid /\ shapeOK /\ probed,
        /\ \A m \in 1..ND : \A q \in DOMAIN ev[m + 1].solves : ev[m + 1].solves[q].phase = PhaseAt(c, m)
        /\ \A q \in DOMAIN c.tail : c.tail[q].phase = PhaseAt(c, ND + 1)),
     Cl("C18.Dt", valid /\ shapeOK /\ probed,
        \A m \in 1..ND :
           LET d == ev[m + 1] IN
           IF NP(c) = 0 THEN EqX(DJ(d.dt) \otimes DJ(d.i), cap0 \otimes DE(36, -1))
           ELSE DEq(DJ(d.dt), DurAt(c, m))),
     \* the current handed to the model is the battery's steady-state output current for its present voltage and
     \* impedance in the phase of the step (any converged answer: solver class)
     Cl("C18.Current", valid /\ shapeOK /\ probed,
        \A m \in 1..ND : ev[m + 1].has_ref => CloseI(DJ(ev[m + 1].i), DJ(ev[m + 1].iref))),
     Cl("C18.LogInitial", valid /\ c.outcome = "ok" /\ probed,
        Len(c.log) >= 1 /\ DIsZero(DJ(c.log[1][1])) /\ SubSeq(c.log[1], 2, 4) = ev[1].ret),
     Cl("C18.LogPrefix", valid /\ c.outcome = "ok" /\ complete /\ probed,
        /\ Len(c.log) = 1 + Cardinality(AliveM)
        /\ AliveM = 1..Cardinality(AliveM)
        /\ \A m \in AliveM : SubSeq(c.log[m + 1], 2, 4) = ev[m + 1].ret
        /\ \A j \in DOMAIN c.log : j >= 2 => Alive(SubSeq(c.log[j], 2, 4), cut)),
     Cl("C18.TimeIncreasing", valid /\ c.outcome = "ok" /\ complete /\ probed /\ Len(c.log) = 1 + Cardinality(AliveM),
        \A m \in AliveM :
           /\ DLt(DJ(c.log[m][1]), DJ(c.log[m + 1][1]))
           /\ EqX(DJ(c.log[m + 1][1]), DJ(c.log[m][1]) \oplus DJ(ev[m + 1].dt)))
  >>

AllClauseNames == {"C18.NotASource", "C17.BattRestored", "C18.Machine.Shape", "C18.Machine.Outcome", "C18.Machine.Guard",
                   "note.C18.SetSource", "note.C18.PhaseOrder", "C18.Dt", "C18.Current", "C18.LogInitial", "C18.LogPrefix",
                   "C18.TimeIncreasing", "events"}
RECURSIVE SetToSeq(_)
SetToSeq(X) == IF X = {} THEN <<>> ELSE LET x == CHOOSE x \in X : TRUE IN <<x>> \o SetToSeq(X \ {x})
Init == ci = 1 /\ verd = <<>> /\ stat = [c \in AllClauseNames |-> 0]
Step2(c, cls, bad) ==
  /\ verd' = verd \o SetToSeq({[tid |-> c.id, k |-> 1, clause |-> cls[i][1], op |-> c.battery, phase |-> ""] : i \in bad})
  /\ stat' = [nm \in AllClauseNames |-> stat[nm] + (IF nm = "events" THEN 1
                 ELSE Cardinality({i \in DOMAIN cls : cls[i][1] = nm /\ cls[i][2]}))]
  /\ ci' = ci + 1
Step1(c, cls) == Step2(c, cls, {i \in DOMAIN cls : cls[i][2] /\ ~cls[i][3]})
Step == ci <= Len(Batch) /\ Step1(Batch[ci], CaseClauses(Batch[ci]))
Next == Step
Spec == Init /\ [][Next]_vars
Finished == ci > Len(Batch) => JsonSerialize(IOEnv.OUT_FILE, [verd |-> verd, stat |-> stat])
=============================================================================
