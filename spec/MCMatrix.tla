------------------------------ MODULE MCMatrix ------------------------------
(***************************************************************************)
(* Coverage matrix for the numeric checks: TLC enumerates every combination *)
(* of                                                                       *)
(*   kind of the component under test, form of its tabulable parameter,     *)
(*   supply polarity, position (directly under the source / below a mux     *)
(*   whose first input is dead / the mux itself with a dead first or second *)
(*   input), phase situation (no phases / listed / not listed / a load      *)
(*   value of exactly 0)                                                    *)
(* that makes sense for the kind.  Every state becomes one small numeric    *)
(* system (driver: harness/matrix.py).  Random structures reach these       *)
(* corners only occasionally; the matrix reaches each of them in every run. *)
(***************************************************************************)
EXTENDS Naturals, FiniteSets

Kinds  == {"PLoad", "ILoad", "RLoad", "RLoss", "VLoss", "Converter", "LinReg", "PSwitch", "PMux", "Rectifier"}
Tabled == {"VLoss", "Converter", "LinReg", "PSwitch", "PMux", "Rectifier"}
Loads  == {"PLoad", "ILoad", "RLoad"}
Listable == {"Converter", "LinReg", "PSwitch", "PMux"}

VARIABLES kind, form, sign, pos, ph, mode
vars == <<kind, form, sign, pos, ph, mode>>

Init ==
  /\ kind \in Kinds
  /\ form \in (IF kind \in Tabled THEN {"const", "t1", "t2"} ELSE {"const"})
  /\ sign \in {"pos", "neg"}
  /\ pos \in (IF kind = "PMux" THEN {"first_dead", "second_dead", "single"} ELSE {"direct", "below_mux"})
  /\ ph \in (IF kind \in Loads THEN {"none", "valued", "absent", "zero"}
             ELSE IF kind \in Listable THEN {"none", "listed", "unlisted"} ELSE {"none"})
  /\ mode \in (IF kind = "Rectifier" THEN {"diode", "mosfet"} ELSE {"-"})
Next == UNCHANGED vars
Spec == Init /\ [][Next]_vars
TypeOK == kind \in Kinds
=============================================================================
