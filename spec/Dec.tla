-------------------------------- MODULE Dec --------------------------------
(***************************************************************************)
(* Exact decimal floating point for TLC.                                    *)
(*                                                                          *)
(* A number is a record [n, m, e] = (-1)^n * M * 10^e with M a little-endian *)
(* sequence of base-10^4 limbs without trailing zero limb (zero: m = <<>>).  *)
(* Addition, subtraction, multiplication and comparison are exact, so the   *)
(* only inexactness in a clause is the tolerance the clause states.  There  *)
(* is no division: every law is written as a bound on a polynomial.         *)
(* Wire form (from the harness): <<sign, e, l0, l1, ...>>  (DJ converts).   *)
(***************************************************************************)
EXTENDS Naturals, Integers, Sequences

B == 10000

IMax(a, b) == IF a >= b THEN a ELSE b
IMin(a, b) == IF a <= b THEN a ELSE b

P10(k) == CASE k = 0 -> 1 [] k = 1 -> 10 [] k = 2 -> 100 [] k = 3 -> 1000

Limb(m, i) == IF i <= Len(m) THEN m[i] ELSE 0

RECURSIVE Trim(_)
Trim(m) == IF m = <<>> THEN m
           ELSE IF m[Len(m)] = 0 THEN Trim(SubSeq(m, 1, Len(m) - 1)) ELSE m

Zeros(k) == [i \in 1..k |-> 0]

\* ripple-carry addition of limb sequences
RECURSIVE AddC(_, _, _, _, _)
AddC(a, b, i, c, n) ==
  IF i > n THEN (IF c = 0 THEN <<>> ELSE <<c>>)
  ELSE LET s == Limb(a, i) + Limb(b, i) + c
       IN  <<s % B>> \o AddC(a, b, i + 1, s \div B, n)
MAdd(a, b) == AddC(a, b, 1, 0, IMax(Len(a), Len(b)))

\* a - b for a >= b
RECURSIVE SubC(_, _, _, _)
SubC(a, b, i, c) ==
  IF i > Len(a) THEN <<>>
  ELSE LET s == Limb(a, i) - Limb(b, i) - c
       IN  IF s < 0 THEN <<s + B>> \o SubC(a, b, i + 1, 1)
                    ELSE <<s>> \o SubC(a, b, i + 1, 0)
MSub(a, b) == Trim(SubC(a, b, 1, 0))

\* comparison of trimmed limb sequences: -1, 0, 1
RECURSIVE CmpFrom(_, _, _)
CmpFrom(a, b, i) ==
  IF i = 0 THEN 0
  ELSE IF a[i] > b[i] THEN 1 ELSE IF a[i] < b[i] THEN -1 ELSE CmpFrom(a, b, i - 1)
MCmp(a, b) == IF Len(a) > Len(b) THEN 1 ELSE IF Len(a) < Len(b) THEN -1
              ELSE CmpFrom(a, b, Len(a))

\* multiplication by a single limb value 0 <= k < B
RECURSIVE MulL(_, _, _, _)
MulL(m, k, i, c) ==
  IF i > Len(m) THEN (IF c = 0 THEN <<>> ELSE <<c>>)
  ELSE LET p == m[i] * k + c
       IN  <<p % B>> \o MulL(m, k, i + 1, p \div B)

\* schoolbook multiplication
RECURSIVE MulK(_, _, _)
MulK(a, b, j) ==
  IF j > Len(b) THEN <<>>
  ELSE MAdd(Zeros(j - 1) \o MulL(a, b[j], 1, 0), MulK(a, b, j + 1))
MMul(a, b) == IF a = <<>> \/ b = <<>> THEN <<>> ELSE Trim(MulK(a, b, 1))

\* m * 10^k, k >= 0
MShift(m, k) == IF m = <<>> \/ k = 0 THEN m
                ELSE Zeros(k \div 4) \o (IF k % 4 = 0 THEN m ELSE MulL(m, P10(k % 4), 1, 0))

-----------------------------------------------------------------------------
D(n, m, e) == [n |-> (n /\ m # <<>>), m |-> m, e |-> IF m = <<>> THEN 0 ELSE e]
DZero      == [n |-> FALSE, m |-> <<>>, e |-> 0]
DIsZero(x) == x.m = <<>>
DNeg(x)    == D(~x.n, x.m, x.e)
DAbs(x)    == D(FALSE, x.m, x.e)
DSign(x)   == IF x.m = <<>> THEN 0 ELSE IF x.n THEN -1 ELSE 1

DMul(x, y) == D(x.n # y.n, MMul(x.m, y.m), x.e + y.e)

DAdd(x, y) ==
  IF DIsZero(x) THEN y ELSE IF DIsZero(y) THEN x ELSE
  LET e == IMin(x.e, y.e)
      a == MShift(x.m, x.e - e)
      b == MShift(y.m, y.e - e)
  IN  IF x.n = y.n THEN D(x.n, MAdd(a, b), e)
      ELSE LET c == MCmp(a, b) IN
           IF c = 0 THEN DZero
           ELSE IF c > 0 THEN D(x.n, MSub(a, b), e) ELSE D(y.n, MSub(b, a), e)
DSub(x, y) == DAdd(x, DNeg(y))

DCmp(x, y) == DSign(DSub(x, y))
DLeq(x, y) == DCmp(x, y) <= 0
DLt(x, y)  == DCmp(x, y) < 0
DEq(x, y)  == DCmp(x, y) = 0
DMax(x, y) == IF DLeq(x, y) THEN y ELSE x
DMin(x, y) == IF DLeq(x, y) THEN x ELSE y

\* small integers and powers of ten
RECURSIVE NatLimbs(_)
NatLimbs(k) == IF k = 0 THEN <<>> ELSE <<k % B>> \o NatLimbs(k \div B)
DInt(k) == IF k >= 0 THEN D(FALSE, NatLimbs(k), 0) ELSE D(TRUE, NatLimbs(-k), 0)
DE(k, e) == D(k < 0, NatLimbs(IF k < 0 THEN -k ELSE k), e)     \* k * 10^e

\* wire form <<sign, e, l0, l1, ...>> -> number;  a cell that is not a finite number is sent as
\* <<2,0>> blank, <<3,0>> NaN, <<4,0>> infinite, <<5,0>> other
DJ(j)     == D(j[1] = 1, Trim(SubSeq(j, 3, Len(j))), j[2])
IsNum(j)  == j[1] <= 1
IsBlank(j) == j[1] = 2

\* infix notation
a \oplus b  == DAdd(a, b)
a \ominus b == DSub(a, b)
a \otimes b == DMul(a, b)
a \preceq b == DLeq(a, b)
a \prec b   == DLt(a, b)

RECURSIVE DSumSeq(_)
DSumSeq(s) == IF s = <<>> THEN DZero ELSE DAdd(Head(s), DSumSeq(Tail(s)))
=============================================================================
