SPECIFICATION SpecBuild
CONSTANTS
  NameU = {"a", "b", "c", "d", "e", "f", "g", "h", "i", "j", "k", "l"}
  RailU = {"", "r1", "r2", "r3", "r4"}
  ClassU = {"Source", "PLoad", "ILoad", "RLoad", "RLoss", "VLoss", "Converter", "LinReg", "PSwitch", "PMux", "Rectifier"}
  PayU = {0}
  GroupU = {"", "g1"}
  ConfU <- CfgConfBuild
  SysPhU <- CfgSysPhBuild
  MaxRefs = 4
  InitName = "a"
CHECK_DEADLOCK FALSE
