------------------------------ MODULE SysImpl ------------------------------
(***************************************************************************)
(* The editing calls of `System` at the grain of the IMPLEMENTATION: a      *)
(* stable-index graph (node slots that are freed and re-used, last freed    *)
(* first), the five hand-maintained registries                              *)
(*     reg   name  -> node index        (attrs["nodes"])                    *)
(*     rail  name  -> rail name         (attrs["rails"])                    *)
(*     group name  -> group             (attrs["groups"])                   *)
(*     pconf name  -> phase config      (attrs["phase_conf"])               *)
(*     pn    index -> raw parent references, in priority order (pnames)     *)
(* and the checks and mutations of every call in the order in which the     *)
(* code performs them (system.py as repaired by the fix: commits).  A call  *)
(* is a pure function  (state, arguments) -> [st, out]  with out = "ok" or  *)
(* "exc"; a raise leaves whatever had been mutated before it.               *)
(*                                                                          *)
(* MCImpl checks, on the universes of MCEdit, that this model REFINES the   *)
(* abstract edit specification SysTree under the mapping Abs:               *)
(*     accepted  <=>  SysTree!OpOK,  Abs(post) = SysTree!OpEff(Abs(pre)),   *)
(*     rejected   =>  post = pre  (the whole concrete state),               *)
(* and that the registries stay consistent (ImplConsistent).  The defects   *)
(* F4 - F9, F17 and F22 are refinement counterexamples of the earlier       *)
(* algorithms (MCImpl with Variant = "original" reproduces three of them).  *)
(***************************************************************************)
EXTENDS SysTree

CONSTANT Variant      \* "fixed" : system.py as it is now;  "original" : three of the algorithms before the fix: commits

None == 0 - 1
Last(s) == s[Len(s)]
Front(s) == SubSeq(s, 1, Len(s) - 1)

\* ---- concrete state ------------------------------------------------------
\* I = [node : idx -> [name, cls, pay],  edges : set of <<parent idx, child idx>>,  reg, rail, group, pconf, pn,
\*      free : stack of freed indices, next : number of slots ever used, sysph]
Live(I)      == DOMAIN I.node
Preds(I, i)  == {e[1] : e \in {x \in I.edges : x[2] = i}}
Succs(I, i)  == {e[2] : e \in {x \in I.edges : x[1] = i}}
KindAt(I, i) == KindOf(I.node[i].cls)

\* _get_index: a component name, else the owner of a rail of that name, else -1
GetIndex(I, x) ==
  IF x \in DOMAIN I.reg THEN I.reg[x]
  ELSE IF \E n \in DOMAIN I.rail : I.rail[n] = x /\ x # "" THEN I.reg[CHOOSE n \in DOMAIN I.rail : I.rail[n] = x]
  ELSE IF x = "" /\ (\E n \in DOMAIN I.rail : I.rail[n] = "") THEN I.reg[CHOOSE n \in DOMAIN I.rail : I.rail[n] = ""]
  ELSE None
RailVals(I)     == {I.rail[n] : n \in DOMAIN I.rail}
ChkParent(I, p) == p \in DOMAIN I.reg \/ p \in RailVals(I)
ChkName(I, name, rail) ==
  /\ name \notin DOMAIN I.reg /\ name \notin RailVals(I)
  /\ rail # "" => (name # rail /\ rail \notin DOMAIN I.reg /\ rail \notin RailVals(I))

\* node slots: the most recently freed index is re-used first, else a new slot
AllocIdx(I)  == IF I.free # <<>> THEN Last(I.free) ELSE I.next
AfterAlloc(I) == IF I.free # <<>> THEN [I EXCEPT !.free = Front(@)] ELSE [I EXCEPT !.next = @ + 1]
Drop(f, k)   == [x \in DOMAIN f \ {k} |-> f[x]]

\* descendants of a node (graph)
RECURSIVE DescIdx(_, _, _)
DescIdx(I, front, acc) ==
  IF front = {} THEN acc
  ELSE LET nx == (UNION {Succs(I, f) : f \in front}) \ acc IN DescIdx(I, nx, acc \cup nx)

\* _get_parents()[i]: predecessors; for a node with several of them, the indices its references resolve to, in order
ParentsOf(I, i) ==
  LET ps == Preds(I, i) IN
  IF ps = {} THEN <<>>
  ELSE IF Cardinality(ps) = 1 THEN <<CHOOSE p \in ps : TRUE>>
  ELSE [k \in 1..Cardinality(ps) |-> IF k <= Len(I.pn[i]) THEN GetIndex(I, I.pn[i][k]) ELSE None]

Ok(I)  == [st |-> I, out |-> "ok"]
Exc(I) == [st |-> I, out |-> "exc"]

\* ---- System(name, source, group, rail) ------------------------------------
NewImpl(a) ==
  [node |-> (0 :> [name |-> a.comp.name, cls |-> a.comp.cls, pay |-> a.comp.pay]), edges |-> {},
   reg |-> (a.comp.name :> 0), rail |-> (a.comp.name :> a.rail), group |-> (a.comp.name :> a.group),
   pconf |-> (a.comp.name :> NoConf), pn |-> (0 :> <<>>), free |-> <<>>, next |-> 1, sysph |-> <<>>]

\* ---- add_source ----------------------------------------------------------
ImplAddSource(I, a) ==
  IF ~ChkName(I, a.comp.name, a.rail) THEN Exc(I)
  ELSE IF KindOf(a.comp.cls) # "SOURCE" THEN Exc(I)
  ELSE LET c == AllocIdx(I) J == AfterAlloc(I) n == a.comp.name IN
       Ok([J EXCEPT !.node = (c :> [name |-> n, cls |-> a.comp.cls, pay |-> a.comp.pay]) @@ @,
                    !.reg = (n :> c) @@ @, !.pconf = (n :> NoConf) @@ @, !.group = (n :> a.group) @@ @,
                    !.rail = (n :> a.rail) @@ @, !.pn = (c :> <<>>) @@ @])

\* ---- add_comp ------------------------------------------------------------
ImplAddComp(I, a) ==
  LET refs == a.refs
      nk   == KindOf(a.comp.cls)
      n    == a.comp.name
  IN
  IF a.aslist /\ ~NoDup(refs) THEN Exc(I)
  ELSE IF a.aslist /\ nk # "PMUX" THEN Exc(I)
  ELSE IF \E k \in DOMAIN refs : ~ChkParent(I, refs[k]) THEN Exc(I)
  ELSE IF ~ChkName(I, n, a.rail) THEN Exc(I)
  ELSE IF nk = "UNKNOWN" THEN Exc(I)
  ELSE IF \E k \in DOMAIN refs : ~AcceptsChild(KindAt(I, GetIndex(I, refs[k])), nk) THEN Exc(I)
  ELSE IF nk = "PMUX" /\ (\E m \in DOMAIN I.reg : KindAt(I, I.reg[m]) = "PMUX") THEN Exc(I)
  ELSE IF refs = <<>> THEN Exc(I)                                   \* IndexError on pidx[0]
  ELSE LET c == AllocIdx(I) J == AfterAlloc(I)
           pidx == [k \in DOMAIN refs |-> GetIndex(I, refs[k])]
       IN Ok([J EXCEPT !.node = (c :> [name |-> n, cls |-> a.comp.cls, pay |-> a.comp.pay]) @@ @,
                       !.edges = @ \cup {<<pidx[k], c>> : k \in DOMAIN pidx},
                       !.reg = (n :> c) @@ @, !.pconf = (n :> NoConf) @@ @, !.group = (n :> a.group) @@ @,
                       !.pn = (c :> refs) @@ @,
                       !.rail = (n :> (IF nk = "LOAD" THEN "" ELSE a.rail)) @@ @])

\* ---- change_comp ---------------------------------------------------------
ImplChangeComp(I, a) ==
  LET name == a.target
      n    == a.comp.name
      nk   == KindOf(a.comp.cls)
  IN
  IF name \notin DOMAIN I.reg THEN Exc(I)                            \* _chk_comp
  ELSE
  LET e == I.reg[name]
      railOK == IF name # n THEN ChkName(I, n, a.rail)
                ELSE IF Variant = "original" THEN TRUE               \* (F7: the rail was never checked when the name is kept)
                ELSE (a.rail # "" /\ a.rail # I.rail[name]) =>
                        (a.rail # name /\ a.rail \notin DOMAIN I.reg /\ a.rail \notin RailVals(I))
      ps == ParentsOf(I, e)
  IN
  IF ~railOK THEN Exc(I)
  ELSE IF nk = "UNKNOWN" THEN Exc(I)
  ELSE IF Variant # "original" /\ (\E c \in Succs(I, e) : ~AcceptsChild(nk, KindAt(I, c))) THEN Exc(I)       \* (F6)
  ELSE IF Variant # "original" /\ nk = "PMUX" /\ KindAt(I, e) # "PMUX"
          /\ (\E m \in DOMAIN I.reg : KindAt(I, I.reg[m]) = "PMUX") THEN Exc(I)                             \* (F17)
  ELSE IF KindAt(I, e) = "SOURCE" /\ nk # "SOURCE" THEN Exc(I)
  ELSE IF KindAt(I, e) = "PMUX" /\ nk # "PMUX" THEN Exc(I)
  ELSE IF ps # <<>> /\ (ps[1] = None \/ ~AcceptsChild(KindAt(I, ps[1]), nk)) THEN Exc(I)
  ELSE
  LET pn1 == IF Variant = "original" THEN I.pn                                                        \* (F8: references not renamed)
             ELSE [i \in DOMAIN I.pn |->
                     IF i \in Succs(I, e) THEN [k \in DOMAIN I.pn[i] |-> IF GetIndex(I, I.pn[i][k]) = e THEN n ELSE I.pn[i][k]]
                     ELSE I.pn[i]]
  IN Ok([I EXCEPT !.pn = pn1,
                  !.node[e] = [name |-> n, cls |-> a.comp.cls, pay |-> a.comp.pay],
                  !.reg = (n :> e) @@ Drop(@, name),
                  !.pconf = (n :> NoConf) @@ Drop(@, name),
                  !.group = (n :> a.group) @@ Drop(@, name),
                  !.rail = (n :> (IF nk = "LOAD" THEN "" ELSE a.rail)) @@ Drop(@, name)])

\* ---- del_comp ------------------------------------------------------------
ImplDelComp(I, a) ==
  LET name == a.target IN
  IF name \notin DOMAIN I.reg THEN Exc(I)
  ELSE
  LET e  == I.reg[name]
      ps == ParentsOf(I, e)
      srcs == {i \in Live(I) : KindAt(I, i) = "SOURCE"}
  IN
  IF ps = <<>> /\ ~a.delchilds THEN Exc(I)
  ELSE IF ps = <<>> /\ Cardinality(srcs) < 2 THEN Exc(I)
  ELSE IF a.delchilds THEN
       LET gone  == DescIdx(I, {e}, {}) \cup {e}
           names == {I.node[i].name : i \in gone}
           \* (the order in which the slots are freed: descendants first, the component itself last)
           order == LET S == gone \ {e} IN
                    (CHOOSE q \in [1..Cardinality(S) -> S] : \A x, y \in 1..Cardinality(S) : x # y => q[x] # q[y]) \o <<e>>
       IN Ok([I EXCEPT !.node = [i \in Live(I) \ gone |-> I.node[i]],
                       !.edges = {x \in @ : x[1] \notin gone /\ x[2] \notin gone},
                       !.reg = [m \in DOMAIN @ \ names |-> @[m]], !.pconf = [m \in DOMAIN @ \ names |-> @[m]],
                       !.group = [m \in DOMAIN @ \ names |-> @[m]], !.rail = [m \in DOMAIN @ \ names |-> @[m]],
                       !.pn = [i \in DOMAIN @ \ gone |-> @[i]],
                       !.free = @ \o order])
  ELSE
       LET up    == ps[1]
           pname == I.node[up].name
           kids  == Succs(I, e)
           \* parent references of the children move to the new parent; one reference per component they resolve to
           Moved(s) == [k \in DOMAIN s |-> IF GetIndex(I, s[k]) = e THEN pname ELSE s[k]]
           DedupBy(s) == LET keep == {k \in DOMAIN s : \A j \in 1..(k - 1) : GetIndex(I, s[j]) # GetIndex(I, s[k])}
                         IN [q \in 1..Cardinality(keep) |-> s[CHOOSE k \in keep : Cardinality({j \in keep : j < k}) = q - 1]]
           DedupStr(s) == LET keep == {k \in DOMAIN s : \A j \in 1..(k - 1) : s[j] # s[k]}
                          IN [q \in 1..Cardinality(keep) |-> s[CHOOSE k \in keep : Cardinality({j \in keep : j < k}) = q - 1]]
           pn1 == [i \in DOMAIN I.pn \ {e} |->
                     IF i \notin kids THEN I.pn[i]
                     ELSE IF Variant = "original" THEN I.pn[i]                      \* (F9: the list still names the deleted input)
                     ELSE IF Variant = "f9" THEN DedupStr(Moved(I.pn[i]))            \* (F22: de-duplicated by spelling only)
                     ELSE DedupBy(Moved(I.pn[i]))]
       IN Ok([I EXCEPT !.node = Drop(@, e),
                       !.edges = {x \in @ : x[1] # e /\ x[2] # e} \cup {<<up, c>> : c \in kids},
                       !.reg = Drop(@, name), !.pconf = Drop(@, name), !.group = Drop(@, name), !.rail = Drop(@, name),
                       !.pn = pn1, !.free = Append(@, e)])

\* ---- set_sys_phases / set_comp_phases ------------------------------------
ImplSetSysPhases(I, a) ==
  IF Len(a.phases) = 1 \/ (\E k \in DOMAIN a.phases : a.phases[k].name = "N/A") THEN Exc(I)
  ELSE Ok([I EXCEPT !.sysph = a.phases])
ImplSetCompPhases(I, a) ==
  LET c == GetIndex(I, a.ref) IN
  IF c = None THEN Exc(I)
  ELSE IF a.conf.t \notin {"list", "map", "none"} THEN Exc(I)
  ELSE IF KindAt(I, c) = "SLOSS" THEN Exc(I)
  ELSE Ok([I EXCEPT !.pconf[I.node[c].name] = a.conf])

ImplOp(I, op, a) ==
  CASE op = "add_source"      -> ImplAddSource(I, a)
    [] op = "add_comp"        -> ImplAddComp(I, a)
    [] op = "change_comp"     -> ImplChangeComp(I, a)
    [] op = "del_comp"        -> ImplDelComp(I, a)
    [] op = "set_sys_phases"  -> ImplSetSysPhases(I, a)
    [] op = "set_comp_phases" -> ImplSetCompPhases(I, a)

\* ---- refinement mapping ---------------------------------------------------
NameOfIdx(I, i) == IF i \in Live(I) THEN I.node[i].name ELSE "?"
Abs(I) ==
  [comps |-> [n \in DOMAIN I.reg |-> [cls |-> I.node[I.reg[n]].cls, pay |-> I.node[I.reg[n]].pay,
                                      rail |-> I.rail[n], group |-> I.group[n]]],
   par   |-> [n \in DOMAIN I.reg |-> LET ps == ParentsOf(I, I.reg[n]) IN [k \in DOMAIN ps |-> NameOfIdx(I, ps[k])]],
   pconf |-> [n \in DOMAIN I.reg |-> I.pconf[n]],
   sysph |-> I.sysph]

\* the registries describe the graph
ImplConsistent(I) ==
  /\ \A n \in DOMAIN I.reg : I.reg[n] \in Live(I) /\ I.node[I.reg[n]].name = n
  /\ \A i \in Live(I) : I.node[i].name \in DOMAIN I.reg /\ I.reg[I.node[i].name] = i
  /\ DOMAIN I.rail = DOMAIN I.reg /\ DOMAIN I.group = DOMAIN I.reg /\ DOMAIN I.pconf = DOMAIN I.reg
  /\ DOMAIN I.pn = Live(I)
  /\ \A x \in I.edges : x[1] \in Live(I) /\ x[2] \in Live(I)
  /\ \A i \in Live(I) : Cardinality(Preds(I, i)) > 1 =>
        /\ Len(I.pn[i]) = Cardinality(Preds(I, i))
        /\ {GetIndex(I, I.pn[i][k]) : k \in DOMAIN I.pn[i]} = Preds(I, i)
  /\ \A k \in DOMAIN I.free : I.free[k] \notin Live(I) /\ I.free[k] < I.next
  /\ \A i \in Live(I) : i < I.next
=============================================================================
