SPECIFICATION Spec
INVARIANT Physical
CHECK_DEADLOCK FALSE
