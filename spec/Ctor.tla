-------------------------------- MODULE Ctor --------------------------------
(***************************************************************************)
(* Component constructors (C11): which argument forms are rejected (with    *)
(* ValueError) and which are accepted and normalised to magnitudes.         *)
(* A case is (kind, a) with a : parameter name -> form.  Forms:             *)
(*   absent pos neg zero int      scalar given / not given, its sign        *)
(*   one gt1                      efficiency exactly 1 / above 1            *)
(*   small negsmall equal larger neglarger   LinReg dropout relative to |vo| *)
(*   t1 t2                        well-formed 1-D / 2-D table               *)
(*   t_missing t_flat t_ragged t_mis_io t_mis_vi t_nonmono t_repeat          *)
(*                                malformed / mismatched / non-monotonic    *)
(*   t_negentry t_zeroentry t_gt1entry       table with such an entry       *)
(*   t1_negentry                  1-D table with one negative entry         *)
(*   t1_neg t2_neg t2_negaxis     table written with a minus sign on every  *)
(*                                entry / on the vi axis                    *)
(*   list list_neg list_str str   resistance list / with a string / a string *)
(*   true false                   loss flag                                  *)
(*   limits: absent ok notlist len3 nonnum                                  *)
(***************************************************************************)
EXTENDS Naturals, FiniteSets, TLC

Scalar   == {"absent", "pos", "neg", "zero", "int"}
Mand     == {"pos", "neg", "zero", "int"}
Opt3     == {"absent", "pos", "neg"}
TableBad == {"t_missing", "t_flat", "t_ragged", "t_mis_io", "t_mis_vi", "t_nonmono", "t_repeat"}
TableOK  == {"t1", "t2"}
LimForms == {"absent", "ok", "notlist", "len3", "nonnum"}
Flag     == {"absent", "true", "false"}
\* tables carrying a minus sign: one entry of a 2-D / 1-D table, every entry of a 1-D / 2-D table, the vi axis
NegEntry == {"t_negentry", "t1_negentry"}
NegTable == {"t1_neg", "t2_neg", "t2_negaxis"}
IgForms  == Scalar \cup TableOK \cup TableBad \cup NegEntry \cup {"t2_negaxis"}

Kinds == {"Source", "PLoad", "ILoad", "RLoad", "RLoss", "VLoss", "Converter", "LinReg", "PSwitch", "PMux", "Rectifier"}

\* parameter -> admissible forms, per kind
Space(kind) ==
  CASE kind = "Source"    -> [vo |-> Mand, rs |-> Scalar, limits |-> LimForms]
    [] kind = "PLoad"     -> [pwr |-> Mand, pwrs |-> Scalar, rt |-> Opt3, loss |-> Flag, limits |-> LimForms]
    [] kind = "ILoad"     -> [ii |-> Mand, iis |-> Scalar, rt |-> Opt3, loss |-> Flag, limits |-> LimForms]
    [] kind = "RLoad"     -> [rs |-> Mand, rt |-> Scalar, loss |-> Flag, limits |-> LimForms]
    [] kind = "RLoss"     -> [rs |-> Mand, rt |-> Scalar, limits |-> LimForms]
    [] kind = "VLoss"     -> [vdrop |-> Mand \cup TableOK \cup TableBad \cup NegEntry \cup NegTable, rt |-> Scalar, limits |-> LimForms]
    [] kind = "Converter" -> [vo |-> {"pos", "neg", "int"},
                              eff |-> {"pos", "one", "neg", "zero", "gt1", "int"} \cup TableOK \cup TableBad
                                      \cup NegEntry \cup {"t_zeroentry", "t_gt1entry", "t2_negaxis"},
                              iq |-> Opt3, iis |-> Opt3, rt |-> Opt3, limits |-> LimForms]
    [] kind = "LinReg"    -> [vo |-> {"pos", "neg", "zero"},
                              vdrop |-> {"absent", "small", "negsmall", "equal", "larger", "neglarger"},
                              ig |-> IgForms, iis |-> Opt3, rt |-> Opt3, limits |-> {"absent", "ok", "nonnum"}]
    [] kind = "PSwitch"   -> [rs |-> Scalar, ig |-> IgForms, iis |-> Opt3, rt |-> Opt3, limits |-> LimForms]
    [] kind = "PMux"      -> [rs |-> Scalar \cup {"list", "list_neg", "list_str"}, ig |-> IgForms, iis |-> Opt3, rt |-> Opt3,
                              limits |-> {"absent", "ok", "len3"}]
    [] kind = "Rectifier" -> [vdrop |-> {"absent", "zero", "pos", "neg", "t1", "t2", "t_missing", "t_nonmono", "t_mis_io", "t1_negentry", "t1_neg", "t2_neg", "t2_negaxis"},
                              rs |-> Scalar \cup {"list_str", "str"}, ig |-> {"absent", "pos", "neg", "t1", "t_negentry", "t1_negentry", "t_mis_vi"},
                              iq |-> Opt3, rt |-> Opt3, limits |-> {"absent", "ok", "notlist"}]

Has(a, k)     == k \in DOMAIN a
F(a, k)       == IF Has(a, k) THEN a[k] ELSE "absent"
BadLimits(a)  == F(a, "limits") \in {"notlist", "len3", "nonnum"}
DiodeMode(a)  == F(a, "vdrop") \notin {"absent", "zero"}

\* the constructor must reject exactly these (with ValueError)
Rejects(kind, a) ==
  \/ BadLimits(a)
  \/ kind = "Converter" /\ F(a, "eff") \in {"neg", "zero", "gt1", "t_zeroentry", "t_gt1entry"} \cup NegEntry \cup TableBad
  \/ kind = "LinReg" /\ ( F(a, "vo") = "zero" \/ F(a, "vdrop") \in {"equal", "larger", "neglarger"}
                          \/ F(a, "ig") \in TableBad \cup NegEntry )
  \/ kind = "RLoad" /\ F(a, "rs") = "zero"
  \/ kind = "VLoss" /\ F(a, "vdrop") \in TableBad
  \/ kind \in {"PSwitch", "PMux"} /\ F(a, "ig") \in TableBad \cup NegEntry
  \/ kind = "PMux" /\ F(a, "rs") = "list_str"
  \/ kind = "Rectifier" /\ DiodeMode(a) /\ F(a, "vdrop") \in TableBad
  \/ kind = "Rectifier" /\ ~DiodeMode(a) /\ ( F(a, "rs") \in {"list_str", "str"} \/ F(a, "ig") \in TableBad \cup NegEntry )

\* scalar parameters that are magnitudes: given with a negative sign they are stored as |value|
MagKeys(kind) ==
  CASE kind = "Source" -> {"rs"} [] kind = "PLoad" -> {"pwr", "pwrs", "rt"} [] kind = "ILoad" -> {"ii", "iis", "rt"}
    [] kind = "RLoad" -> {"rs", "rt"} [] kind = "RLoss" -> {"rs", "rt"} [] kind = "VLoss" -> {"vdrop", "rt"}
    [] kind = "Converter" -> {"iq", "iis", "rt"} [] kind = "LinReg" -> {"vdrop", "iis", "rt"}
    [] kind = "PSwitch" -> {"rs", "iis", "rt"} [] kind = "PMux" -> {"rs", "iis", "rt"}
    [] kind = "Rectifier" -> {"vdrop", "rs", "iq", "rt"}
SignKept(kind) == IF kind \in {"Source", "Converter", "LinReg"} THEN {"vo"} ELSE {}

\* physical consequence of the acceptance rule, on the signs of what is stored: an accepted
\* component has efficiency in (0, 1], non-zero load resistance, dropout below |vo|, no negative
\* tabulated ground current - hence (row theorems of Elec) no negative loss / gain
AcceptedIsPhysical(kind, a) ==
  ~Rejects(kind, a) =>
     /\ kind = "Converter" => F(a, "eff") \in {"pos", "one", "int", "t1", "t2", "t2_negaxis"}
     /\ kind = "RLoad" => F(a, "rs") # "zero"
     /\ kind = "LinReg" => F(a, "vdrop") \in {"absent", "small", "negsmall"} /\ F(a, "vo") # "zero"
     /\ F(a, "ig") \notin NegEntry \/ (kind = "Rectifier" /\ DiodeMode(a))
=============================================================================
