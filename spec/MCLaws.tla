------------------------------- MODULE MCLaws -------------------------------
(***************************************************************************)
(* Row theorems of the documented component laws (C01, C02, C11), checked   *)
(* by TLC on a lattice of parameters and operating points for every kind.   *)
(*                                                                          *)
(* For one component x of each kind (parameters from a small decimal        *)
(* lattice, input voltage of either polarity, output current incl. 0) the   *)
(* documented transfer law is evaluated in its FUNCTIONAL form (exact       *)
(* decimals; lattice values are chosen so that every quotient is a finite   *)
(* decimal).  Invariants:                                                   *)
(*   Accepts     the RELATIONAL forms of Elec.tla (VoutLaw, IinLaw,         *)
(*               LossLaw - the ones the trace validator uses) accept these  *)
(*               values ...                                                 *)
(*   Rejects     ... and reject them when perturbed by 1 % (the relations   *)
(*               are not vacuous)                                           *)
(*   EnergyRow   Power - Loss = |Vout| x Iout          (C02)                *)
(*   LossBounds  0 <= Loss <= Power                    (C02, C11)           *)
(*   EffRange    0 <= 100 (P - L) <= 100 P             (C02, C11)           *)
(*   PassiveNoGain  series elements neither amplify nor invert (C03, C11)   *)
(*   Mirror      the law of -Vin is the mirrored law: voltages change sign, *)
(*               currents / powers do not (a rectifier keeps its output)    *)
(* i.e. C02 is a consequence of C01's laws plus the documented loss         *)
(* formulas in the specification; the code is then held to both.            *)
(***************************************************************************)
EXTENDS Elec, TLC

VARIABLES kind, mode, p1, p2, p3, vin, io
vars == <<kind, mode, p1, p2, p3, vin, io>>

\* wire constants  <<sign, exponent, mantissa>>
W(k, e)  == IF k = 0 THEN <<0, 0>> ELSE <<0, e, k>>
NegW(w)  == IF Len(w) = 2 THEN w ELSE <<1 - w[1], w[2], w[3]>>
Cw(w)    == [k |-> "c", v |-> w]
Kinds    == {"Source", "PLoad", "ILoad", "RLoad", "RLoss", "VLoss", "Converter", "LinReg", "PSwitch", "PMux", "Rectifier"}
Vins     == {W(4, 0), W(5, 0), W(8, 0)}                    \* |Vin| : 1/|Vin| is a finite decimal
Ios      == {W(0, 0), W(1, -1), W(5, -1)}                  \* 0, 0.1, 0.5 A
Small    == {W(0, 0), W(2, -1)}                            \* 0 / 0.2  (resistance, drop)
Tiny     == {W(0, 0), W(1, -3)}                            \* 0 / 1 mA (ground, quiescent current)

\* 1 / d for the denominators that occur (|Vin|, |Vin| x eff, load resistance)
Recip(d) ==
  CASE DEq(d, DInt(4)) -> DE(25, -2)   [] DEq(d, DInt(5)) -> DE(2, -1)     [] DEq(d, DInt(8)) -> DE(125, -3)
    [] DEq(d, DInt(2)) -> DE(5, -1)    [] DEq(d, DE(25, -1)) -> DE(4, -1)  [] DEq(d, DE(32, -1)) -> DE(3125, -4)
    [] DEq(d, DE(64, -1)) -> DE(15625, -5) [] DEq(d, DInt(40)) -> DE(25, -3) [] DEq(d, DInt(100)) -> DE(1, -2)
    [] DEq(d, DInt(1)) -> DInt(1)

Init ==
  /\ kind \in Kinds
  /\ mode \in (IF kind = "Rectifier" THEN {"diode", "mosfet"} ELSE {"-"})
  /\ vin \in Vins \cup {NegW(v) : v \in Vins}
  /\ io \in (IF kind \in {"PLoad", "ILoad", "RLoad"} THEN {W(0, 0)} ELSE Ios)
  /\ p1 \in (CASE kind = "Source"    -> Small                        \* rs
               [] kind = "PLoad"     -> {W(1, 0), W(25, -1)}          \* pwr
               [] kind = "ILoad"     -> {W(1, -1), W(25, -2)}         \* ii
               [] kind = "RLoad"     -> {W(40, 0), W(100, 0)}         \* rs
               [] kind = "RLoss"     -> Small                        \* rs
               [] kind = "VLoss"     -> Small                        \* vdrop
               [] kind = "Converter" -> {W(5, -1), W(8, -1), W(1, 0)}  \* eff
               [] kind = "LinReg"    -> {W(33, -1), W(9, 0)}          \* |vo| (below / above the head-room)
               [] OTHER              -> Small)                       \* rs (switch, mux, mosfet bridge) / vdrop (diode bridge)
  /\ p2 \in (CASE kind = "Converter" -> {W(33, -1), NegW(W(33, -1))}  \* vo (either sign)
               [] kind = "LinReg"    -> Small                        \* vdrop
               [] kind \in {"PSwitch", "PMux"} -> Tiny               \* ig
               [] kind = "Rectifier" /\ mode = "mosfet" -> Tiny       \* ig
               [] OTHER              -> {W(0, 0)})
  /\ p3 \in (CASE kind \in {"Converter"} -> Tiny                      \* iq
               [] kind = "LinReg"    -> Tiny                         \* ig
               [] kind = "Rectifier" /\ mode = "mosfet" -> Tiny       \* iq
               [] OTHER              -> {W(0, 0)})
Next == UNCHANGED vars
Spec == Init /\ [][Next]_vars

-----------------------------------------------------------------------------
(* the one-component state the relational laws are evaluated on              *)
Params ==
  CASE kind = "Source"    -> [vo |-> Cw(vin), rs |-> Cw(p1)]
    [] kind = "PLoad"     -> [pwr |-> Cw(p1), pwrs |-> Cw(W(0, 0)), loss |-> [k |-> "b", v |-> FALSE]]
    [] kind = "ILoad"     -> [ii |-> Cw(p1), iis |-> Cw(W(0, 0)), loss |-> [k |-> "b", v |-> FALSE]]
    [] kind = "RLoad"     -> [rs |-> Cw(p1), loss |-> [k |-> "b", v |-> FALSE]]
    [] kind = "RLoss"     -> [rs |-> Cw(p1)]
    [] kind = "VLoss"     -> [vdrop |-> Cw(p1)]
    [] kind = "Converter" -> [vo |-> Cw(p2), eff |-> Cw(p1), iq |-> Cw(p3), iis |-> Cw(W(0, 0))]
    [] kind = "LinReg"    -> [vo |-> Cw(IF vin[1] = 1 THEN NegW(p1) ELSE p1), vdrop |-> Cw(p2), ig |-> Cw(p3), iis |-> Cw(W(0, 0))]
    [] kind = "PSwitch"   -> [rs |-> Cw(p1), ig |-> Cw(p2), iis |-> Cw(W(0, 0))]
    [] kind = "PMux"      -> [rs |-> Cw(p1), ig |-> Cw(p2), iis |-> Cw(W(0, 0))]
    [] kind = "Rectifier" -> IF mode = "diode" THEN [type |-> [k |-> "s", v |-> "diode"], vdrop |-> Cw(p1)]
                             ELSE [type |-> [k |-> "s", v |-> "mosfet"], rs |-> Cw(p1), ig |-> Cw(p2), iq |-> Cw(p3)]
St == [comps |-> ("x" :> [cls |-> kind, pay |-> [params |-> Params, limits |-> <<>>], rail |-> "", group |-> ""]),
       par   |-> ("x" :> (IF kind = "Source" THEN <<>> ELSE <<"up">>)),
       pconf |-> ("x" :> NoConf),
       sysph |-> <<>>]

\* functional forms --------------------------------------------------------
V   == DJ(vin)
AV  == DAbs(V)
SG  == DInt(DSign(V))
IO  == DJ(io)
P1  == DJ(p1)
P2  == DJ(p2)
P3  == DJ(p3)
IsLoad == kind \in {"PLoad", "ILoad", "RLoad"}

VoutF(v) ==
  LET av == DAbs(v) sg == DInt(DSign(v)) IN
  CASE kind = "Source"    -> v \ominus (sg \otimes (P1 \otimes IO))
    [] IsLoad             -> DZero
    [] kind = "RLoss"     -> v \ominus (sg \otimes (P1 \otimes IO))
    [] kind = "VLoss"     -> v \ominus (sg \otimes P1)
    [] kind = "Converter" -> P2
    [] kind = "LinReg"    -> sg \otimes DMin(P1, DMax(av \ominus P2, DZero))
    [] kind \in {"PSwitch", "PMux"} -> sg \otimes (av \ominus (P1 \otimes IO))
    [] kind = "Rectifier" -> IF mode = "diode" THEN av \ominus (Two \otimes P1) ELSE av \ominus (Two \otimes (P1 \otimes IO))
IinF(v) ==
  LET av == DAbs(v) IN
  CASE kind = "Source"    -> IO
    [] kind = "PLoad"     -> P1 \otimes Recip(av)
    [] kind = "ILoad"     -> P1
    [] kind = "RLoad"     -> av \otimes Recip(P1)
    [] kind \in {"RLoss", "VLoss"} -> IO
    [] kind = "Converter" -> IF DIsZero(IO) THEN P3 ELSE (DAbs(P2) \otimes IO) \otimes Recip(av \otimes P1)
    [] kind = "LinReg"    -> IO \oplus P3
    [] kind \in {"PSwitch", "PMux"} -> IO \oplus P2
    [] kind = "Rectifier" -> IF mode = "diode" THEN IO ELSE IF DIsZero(IO) THEN P3 ELSE IO \oplus P2
\* reported Power and the documented Loss expression
PowerF(v) == IF kind = "Source" THEN DAbs(v) \otimes IO ELSE DAbs(v) \otimes IinF(v)
LossF(v) ==
  LET av == DAbs(v) ao == DAbs(VoutF(v)) IN
  CASE kind = "Source"    -> P1 \otimes (IO \otimes IO)
    [] IsLoad             -> DZero
    [] kind = "RLoss"     -> P1 \otimes (IO \otimes IO)
    [] kind = "VLoss"     -> P1 \otimes IO
    [] kind = "Converter" -> IF DIsZero(IO) THEN P3 \otimes av ELSE (av \otimes IinF(v)) \otimes (DInt(1) \ominus P1)
    [] kind = "LinReg"    -> (P3 \otimes av) \oplus ((av \ominus ao) \otimes IO)
    [] kind \in {"PSwitch", "PMux"} -> (P2 \otimes av) \oplus ((av \ominus ao) \otimes IO)
    [] kind = "Rectifier" -> IF mode = "diode" THEN (Two \otimes P1) \otimes IO
                             ELSE IF DIsZero(IO) THEN P3 \otimes av ELSE (P2 \otimes av) \oplus ((Two \otimes P1) \otimes (IO \otimes IO))

\* the operating points the statement of C01 quantifies over: every series element keeps its polarity
Physical == ~DIsZero(VoutF(V)) \/ IsLoad \/ (kind = "LinReg")
Tol  == DE(1, -6)
ExactEq(x, y, sc) == DEq(x, y)
Up(x) == x \oplus (DE(1, -2) \otimes DAbs(x)) \oplus DE(1, -3)       \* + 1 % + 1e-3

Accepts ==
  Physical =>
    /\ VoutLaw(St, "x", "", 1, V, IO, VoutF(V), Tol)
    /\ IinLaw(St, "x", "", 1, V, IO, IinF(V), Tol)
    /\ LossLaw(St, "x", "", 1, V, VoutF(V), IinF(V), IO, LossF(V), ExactEq)
Rejects ==
  Physical =>
    /\ ~VoutLaw(St, "x", "", 1, V, IO, Up(VoutF(V)), Tol)
    /\ ~IinLaw(St, "x", "", 1, V, IO, Up(IinF(V)), Tol)
    /\ (~IsLoad => ~LossLaw(St, "x", "", 1, V, VoutF(V), IinF(V), IO, Up(LossF(V)), ExactEq))
EnergyRow  == (Physical /\ ~IsLoad) => DEq(PowerF(V) \ominus LossF(V), DAbs(VoutF(V)) \otimes IO)
LossBounds == Physical => DLeq(DZero, LossF(V)) /\ (~IsLoad => DLeq(LossF(V), PowerF(V)))
EffRange   == (Physical /\ ~IsLoad) =>
                 LET num == DInt(100) \otimes (PowerF(V) \ominus LossF(V)) IN
                 DLeq(DZero, num) /\ DLeq(num, DInt(100) \otimes PowerF(V))
PassiveNoGain ==
  (Physical /\ kind \in {"Source", "RLoss", "VLoss", "PSwitch", "PMux", "Rectifier"}) =>
     /\ DLeq(DAbs(VoutF(V)), AV)
     /\ (kind # "Rectifier" => DSign(VoutF(V)) = DSign(V))
     /\ (kind = "Rectifier" => ~VoutF(V).n)
\* mirrored supply (for a Converter the regulated output keeps its own sign; a LinReg's vo follows the supply in this model)
Mirror ==
  Physical =>
    /\ DEq(IinF(DNeg(V)), IinF(V)) /\ DEq(PowerF(DNeg(V)), PowerF(V)) /\ DEq(LossF(DNeg(V)), LossF(V))
    /\ (kind \in {"Source", "RLoss", "VLoss", "PSwitch", "PMux"} => DEq(VoutF(DNeg(V)), DNeg(VoutF(V))))
    /\ (kind = "Rectifier" => DEq(VoutF(DNeg(V)), VoutF(V)))
=============================================================================
