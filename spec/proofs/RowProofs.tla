------------------------------ MODULE RowProofs ------------------------------
(***************************************************************************)
(* The row theorems of MCLaws.tla (C02: energy conservation per row, loss   *)
(* bounds; C03 / C11: passive elements do not amplify) as TLAPS theorems    *)
(* over ALL integers, where MCLaws checks them with TLC on a lattice.       *)
(*                                                                          *)
(* Quantities are magnitudes on an arbitrary common integer scale (every    *)
(* documented law is a polynomial identity, so a common denominator can be  *)
(* multiplied out): vi = |Vin|, vo = |Vout|, io = Iout, ii = Iin,           *)
(* pw = Power = vi * ii, ls = Loss.  An efficiency is a ratio en / ed.       *)
(* Each theorem assumes the documented transfer law (Elec!VoutLaw,          *)
(* Elec!IinLaw) and the documented loss expression (Elec!LossLaw) of one    *)
(* kind and concludes  Power - Loss = |Vout| x Iout  (EnergyRow),           *)
(* 0 <= Loss <= Power (LossBounds) and |Vout| <= |Vin| (PassiveNoGain) for  *)
(* operating points at which the element keeps its polarity (vo >= 0).      *)
(***************************************************************************)
EXTENDS Integers, TLAPS

LEMMA MulNonNeg == ASSUME NEW a \in Int, NEW b \in Int, a >= 0, b >= 0 PROVE a * b >= 0
  BY Z3
LEMMA MulComm == ASSUME NEW a \in Int, NEW b \in Int PROVE a * b = b * a
  BY Z3
LEMMA DistL == ASSUME NEW a \in Int, NEW b \in Int, NEW c \in Int PROVE a * (b + c) = a * b + a * c
  BY Z3
LEMMA DistLm == ASSUME NEW a \in Int, NEW b \in Int, NEW c \in Int PROVE a * (b - c) = a * b - a * c
  BY Z3
LEMMA DistR == ASSUME NEW a \in Int, NEW b \in Int, NEW c \in Int PROVE (a - b) * c = a * c - b * c
  BY Z3
LEMMA MulAssoc == ASSUME NEW a \in Int, NEW b \in Int, NEW c \in Int PROVE (a * b) * c = a * (b * c)
  BY Z3

-----------------------------------------------------------------------------
(* Source with internal resistance, RLoss:  vo = vi - rs io, ii = io,        *)
(* loss = rs io^2                                                           *)
THEOREM SeriesResistance ==
  ASSUME NEW vi \in Int, NEW io \in Int, NEW rs \in Int, NEW vo \in Int, NEW ls \in Int,
         rs >= 0, io >= 0, vo >= 0,
         vo = vi - rs * io,
         ls = rs * (io * io)
  PROVE  /\ vi * io - ls = vo * io            \* EnergyRow (ii = io)
         /\ 0 <= ls /\ ls <= vi * io          \* LossBounds
         /\ vo <= vi                          \* PassiveNoGain
<1>1. rs * io >= 0 BY MulNonNeg
<1>2. (vi - rs * io) * io = vi * io - (rs * io) * io BY DistR, <1>1
<1>3. (rs * io) * io = rs * (io * io) BY MulAssoc
<1>4. vi * io - ls = vo * io BY <1>2, <1>3
<1>5. io * io >= 0 BY MulNonNeg
<1>6. ls >= 0 BY <1>5, MulNonNeg
<1>7. vo * io >= 0 BY MulNonNeg
<1>8. ls <= vi * io BY <1>4, <1>7
<1>9. vo <= vi BY <1>1
<1> QED BY <1>4, <1>6, <1>8, <1>9

(* VLoss, diode bridge (d = vdrop resp. 2 x vdrop): vo = vi - d, ii = io,    *)
(* loss = d io                                                              *)
THEOREM SeriesDrop ==
  ASSUME NEW vi \in Int, NEW io \in Int, NEW d \in Int, NEW vo \in Int, NEW ls \in Int,
         d >= 0, io >= 0, vo >= 0,
         vo = vi - d,
         ls = d * io
  PROVE  /\ vi * io - ls = vo * io
         /\ 0 <= ls /\ ls <= vi * io
         /\ vo <= vi
<1>1. (vi - d) * io = vi * io - d * io BY DistR
<1>2. ls >= 0 BY MulNonNeg
<1>3. vo * io >= 0 BY MulNonNeg
<1> QED BY <1>1, <1>2, <1>3

(* PSwitch, PMux (r = on-resistance of the selected input), LinReg (any vo  *)
(* with 0 <= vo <= vi: min(|vo|, max(vi - vdrop, 0))):  ii = io + ig,       *)
(* loss = ig vi + (vi - vo) io                                              *)
THEOREM GroundCurrentElement ==
  ASSUME NEW vi \in Int, NEW io \in Int, NEW ig \in Int, NEW vo \in Int, NEW ii \in Int, NEW ls \in Int,
         ig >= 0, io >= 0, vo >= 0, vo <= vi,
         ii = io + ig,
         ls = ig * vi + (vi - vo) * io
  PROVE  /\ vi * ii - ls = vo * io
         /\ 0 <= ls /\ ls <= vi * ii
<1>1. vi * (io + ig) = vi * io + vi * ig BY DistL
<1>2. (vi - vo) * io = vi * io - vo * io BY DistR
<1>3. ig * vi = vi * ig BY MulComm
<1>4. vi * ii - ls = vo * io BY <1>1, <1>2, <1>3
<1>5. vi >= 0 OBVIOUS
<1>6. ig * vi >= 0 BY <1>5, MulNonNeg
<1>7. (vi - vo) * io >= 0 BY MulNonNeg
<1>8. vo * io >= 0 BY MulNonNeg
<1> QED BY <1>4, <1>6, <1>7, <1>8

(* the switch / mux output law gives the premise vo <= vi of the theorem     *)
THEOREM SwitchNoGain ==
  ASSUME NEW vi \in Int, NEW io \in Int, NEW rs \in Int, NEW vo \in Int,
         rs >= 0, io >= 0, vo = vi - rs * io
  PROVE  vo <= vi
<1>1. rs * io >= 0 BY MulNonNeg
<1> QED BY <1>1

(* MOSFET bridge under load: vo = vi - 2 rs io, ii = io + ig,               *)
(* loss = ig vi + 2 rs io^2                                                 *)
THEOREM MosfetBridge ==
  ASSUME NEW vi \in Int, NEW io \in Int, NEW rs \in Int, NEW ig \in Int, NEW vo \in Int, NEW ii \in Int, NEW ls \in Int,
         rs >= 0, ig >= 0, io >= 0, vo >= 0,
         vo = vi - (2 * rs) * io,
         ii = io + ig,
         ls = ig * vi + (2 * rs) * (io * io)
  PROVE  /\ vi * ii - ls = vo * io
         /\ 0 <= ls /\ ls <= vi * ii
         /\ vo <= vi
<1> DEFINE r == 2 * rs
<1>0. r \in Int /\ r >= 0 OBVIOUS
<1>1. r * io >= 0 BY <1>0, MulNonNeg
<1>2. (vi - r * io) * io = vi * io - (r * io) * io BY DistR, <1>0, <1>1
<1>3. (r * io) * io = r * (io * io) BY MulAssoc, <1>0
<1>4. vi * (io + ig) = vi * io + vi * ig BY DistL
<1>5. ig * vi = vi * ig BY MulComm
<1>6. vi * ii - ls = vo * io BY <1>2, <1>3, <1>4, <1>5
<1>7. vi >= 0 BY <1>1
<1>8. ig * vi >= 0 BY <1>7, MulNonNeg
<1>9. io * io >= 0 BY MulNonNeg
<1>10. r * (io * io) >= 0 BY <1>0, <1>9, MulNonNeg
<1>11. vo * io >= 0 BY MulNonNeg
<1> QED BY <1>1, <1>6, <1>8, <1>10, <1>11 DEF r

(* Converter under load with efficiency en / ed (0 < en <= ed):             *)
(*   ii vi en = vo io ed,   loss ed = vi ii (ed - en)                       *)
THEOREM ConverterLoaded ==
  ASSUME NEW vi \in Int, NEW io \in Int, NEW vo \in Int, NEW ii \in Int, NEW ls \in Int,
         NEW en \in Int, NEW ed \in Int,
         en > 0, en <= ed, vi >= 0, ii >= 0, io >= 0, vo >= 0,
         (vi * ii) * en = (vo * io) * ed,
         ls * ed = (vi * ii) * (ed - en)
  PROVE  /\ (vi * ii - ls) * ed = (vo * io) * ed      \* EnergyRow (scaled by ed > 0)
         /\ 0 <= ls * ed /\ ls * ed <= (vi * ii) * ed  \* LossBounds (scaled by ed > 0)
<1> DEFINE pw == vi * ii
<1>0. pw \in Int /\ pw >= 0 BY MulNonNeg
<1>1. pw * (ed - en) = pw * ed - pw * en BY DistLm, <1>0
<1>2. (pw - ls) * ed = pw * ed - ls * ed BY DistR, <1>0
<1>3. (pw - ls) * ed = pw * en BY <1>1, <1>2
<1>4. pw * (ed - en) >= 0 BY <1>0, MulNonNeg
<1>5. pw * en >= 0 BY <1>0, MulNonNeg
<1> QED BY <1>1, <1>3, <1>4, <1>5 DEF pw

(* No load / sleep: Converter and MOSFET bridge without load draw iq,        *)
(* inactive elements draw iis; loss = that current x vi, nothing handed on  *)
THEOREM QuiescentRow ==
  ASSUME NEW vi \in Int, NEW iq \in Int, NEW ii \in Int, NEW ls \in Int,
         vi >= 0, iq >= 0, ii = iq, ls = iq * vi
  PROVE  /\ vi * ii - ls = 0
         /\ 0 <= ls /\ ls <= vi * ii
<1>1. iq * vi = vi * iq BY MulComm
<1>2. iq * vi >= 0 BY MulNonNeg
<1> QED BY <1>1, <1>2

(* System balance (C02.Energy.System) for a chain: if every row hands on     *)
(* what the next row takes in, the source power is the load power plus all  *)
(* losses.  Two elements and a load; the induction step of the general case *)
THEOREM ChainBalance ==
  ASSUME NEW p1 \in Int, NEW l1 \in Int, NEW p2 \in Int, NEW l2 \in Int, NEW pl \in Int,
         p1 - l1 = p2,          \* row 1 hands on what row 2 takes in (Link.Vin, Link.Iout, EnergyRow)
         p2 - l2 = pl           \* row 2 hands on what the load consumes
  PROVE  p1 = pl + l1 + l2
  OBVIOUS
=============================================================================
