SPECIFICATION Spec
CONSTANTS XMax = 2 FMax = 1
INVARIANT NonEmpty
INVARIANT GridExact
INVARIANT Functional
INVARIANT InRange
INVARIANT Clamped
INVARIANT SignIgnored
INVARIANT ConstTable
CHECK_DEADLOCK FALSE
