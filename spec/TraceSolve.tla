----------------------------- MODULE TraceSolve -----------------------------
(***************************************************************************)
(* Validation of recorded solve() results against the specification.        *)
(*                                                                          *)
(* Input : IOEnv.TRACE_FILE = JSON array of cases                           *)
(*   [id, st (projected abstract state), args (phase, ta, vtol, itol,       *)
(*    energy), outcome, exc, table = [cols, rows], ...]                      *)
(* Output: IOEnv.OUT_FILE   = JSON [verd, stat] as in TraceEdit.            *)
(* Every clause is a named relation between the abstract state and the      *)
(* table; a failing clause never stops the run.                             *)
(***************************************************************************)
EXTENDS Elec, Json, IOUtils

Batch == JsonDeserialize(IOEnv.TRACE_FILE)

VARIABLES ci, verd, stat
vars == <<ci, verd, stat>>

StateOfJ(j) ==
  LET cs    == j.comps
      N     == {cs[i].name : i \in DOMAIN cs}
      At(n) == cs[CHOOSE i \in DOMAIN cs : cs[i].name = n]
  IN [comps |-> [n \in N |-> [cls |-> At(n).cls, pay |-> At(n).pay,
                              rail |-> At(n).rail, group |-> At(n).group]],
      par   |-> [n \in N |-> At(n).par],
      pconf |-> [n \in N |-> At(n).pconf],
      sysph |-> j.sysph,
      anom  |-> j.anom]

Cl(name, app, cond) == <<name, app, IF app THEN cond ELSE TRUE>>

-----------------------------------------------------------------------------
(* phases solved by this call                                               *)
PhaseNames(S) == [i \in DOMAIN S.sysph |-> S.sysph[i].name]
PhaseList(S, A) == IF A.phase # "" THEN <<A.phase>>
                   ELSE IF S.sysph # <<>> THEN PhaseNames(S) ELSE <<"">>

RowIdx(T, n, ph) == {i \in DOMAIN T.rows : T.rows[i].comp = n /\ T.rows[i].phase = ph}
NumCols == {"vin", "vout", "iin", "iout", "pwr", "loss", "eff"}

\* decoded component row, or [ok |-> FALSE]
Decode(T, n, ph) ==
  LET I == RowIdx(T, n, ph) IN
  IF Cardinality(I) # 1 THEN [ok |-> FALSE, present |-> Cardinality(I), fin |-> TRUE]
  ELSE LET r == T.rows[CHOOSE i \in I : TRUE] IN
       \* (not finite = a NaN / inf cell, codes 3 / 4; a blank or otherwise unreadable cell leaves the row undecoded, unjudged)
       IF \E c \in NumCols : ~IsNum(r[c]) THEN [ok |-> FALSE, present |-> 1, fin |-> ~\E c \in NumCols : r[c][1] \in {3, 4}]
       ELSE [ok |-> TRUE, present |-> 1, fin |-> TRUE,
             vin |-> DJ(r.vin), vout |-> DJ(r.vout), iin |-> DJ(r.iin), iout |-> DJ(r.iout),
             pwr |-> DJ(r.pwr), loss |-> DJ(r.loss), eff |-> DJ(r.eff), raw |-> r]

\* all decoded rows of the call: function on Names x phases
Rows(S, T, PL) == [n \in Names(S), p \in SeqRange(PL) |-> Decode(T, n, p)]

\* selected input of a mux according to the table: first input with a non-zero output
SelOf(S, R, m, ph) ==
  LET ins == S.par[m]
      live == {i \in DOMAIN ins : R[ins[i], ph].ok /\ ~DIsZero(R[ins[i], ph].vout)}
  IN IF live = {} THEN 0 ELSE CHOOSE i \in live : \A j \in live : i <= j
SupplyOf(S, R, n, ph) ==
  IF S.par[n] = <<>> THEN n
  ELSE IF Len(S.par[n]) = 1 THEN S.par[n][1]
  ELSE LET s == SelOf(S, R, n, ph) IN S.par[n][IF s = 0 THEN 1 ELSE s]

RECURSIVE DSumSet(_, _, _)
DSumSet(R, X, field) ==
  IF X = {} THEN DZero
  ELSE LET x == CHOOSE x \in X : TRUE IN R[x][field] \oplus DSumSet(R, X \ {x}, field)

-----------------------------------------------------------------------------
(* C09 : warnings.  Applicable limit keys per kind, default limits, the     *)
(* quantity each key is compared with.                                      *)
LimKeys(S, n) ==
  LET c == Cls(S, n) IN
  IF c = "Source" THEN {"io", "po", "pl"}
  ELSE IF c = "PLoad" THEN {"vi", "ii", "tr", "tp"}
  ELSE IF c = "ILoad" THEN {"vi", "pi", "tr", "tp"}
  ELSE IF c = "RLoad" THEN {"vi", "ii", "pi", "tr", "tp"}
  ELSE IF c = "Converter" THEN {"vi", "vo", "ii", "io", "pi", "po", "pl", "tr", "tp"}
  ELSE {"vi", "vo", "vd", "ii", "io", "pi", "po", "pl", "tr", "tp"}
BigLim == DE(1, 6)
LimOf(S, n, key) ==
  LET L == S.comps[n].pay.limits
      I == {i \in DOMAIN L : L[i][1] = key}
  IN IF I = {} THEN (IF key = "tp" THEN <<DNeg(BigLim), BigLim>> ELSE <<DZero, BigLim>>)
     ELSE LET i == CHOOSE i \in I : TRUE IN <<DJ(L[i][2][1]), DJ(L[i][2][2])>>
\* reported quantities of a row (tr, tp: the reported cells, or 0 / ambient when the columns are hidden)
Quant(r, key, ta, hasT) ==
  CASE key = "vi" -> r.vin [] key = "vo" -> r.vout
    [] key = "vd" -> DAbs(r.vin) \ominus DAbs(r.vout)
    [] key = "ii" -> r.iin [] key = "io" -> r.iout
    [] key = "pi" -> r.pwr [] key = "po" -> r.pwr \ominus r.loss [] key = "pl" -> r.loss
    [] key = "tr" -> IF hasT THEN DJ(r.raw.trise) ELSE DZero
    [] key = "tp" -> IF hasT THEN DJ(r.raw.tpeak) ELSE ta
Exceeds(q, lim, key) ==
  IF key = "tp" THEN DLt(lim[2], q) \/ DLt(q, lim[1])
  ELSE DLt(DAbs(lim[2]), DAbs(q)) \/ DLt(DAbs(q), DAbs(lim[1]))
\* vd and po are formed by a floating point subtraction: undecided within 1e-12 relative of a bound
NearBound(q, lim, key, sc) ==
  key \in {"vd", "po"} /\
  (\/ DLeq(DAbs(DAbs(q) \ominus DAbs(lim[1])), DE(1, -12) \otimes sc)
   \/ DLeq(DAbs(DAbs(q) \ominus DAbs(lim[2])), DE(1, -12) \otimes sc))
WarnOK(S, n, ph, r, ta, hasT) ==
  LET toks == SeqRange(r.raw.wtok)
      sc   == DAbs(r.vin) \oplus DAbs(r.vout) \oplus r.pwr \oplus DAbs(r.loss)
  IN IF Unlisted(S, n, ph) THEN toks = {}
     ELSE /\ toks \subseteq LimKeys(S, n)
          /\ \A key \in LimKeys(S, n) :
                \* (temperature columns hidden = no row has a positive rise; a row whose rise is negative by an unconverged
                \*  digit - 0 Ohm element, huge thermal resistance - has no reported temperature to judge its tr / tp by)
                \/ (key \in {"tr", "tp"} /\ ~hasT /\
                      ~DIsZero(Rt(S, n) \otimes (IF Kind(S, n) = "LOAD" THEN DAbs(r.vin) \otimes r.iin ELSE r.loss)))
                \/ NearBound(Quant(r, key, ta, hasT), LimOf(S, n, key), key, sc)
                \/ (key \in toks) = Exceeds(Quant(r, key, ta, hasT), LimOf(S, n, key), key)

WarnClauses(S, A, R, n, ph, r, ta, T) ==
  << Cl("C09.Exact", TRUE,
        WarnOK(S, n, ph, r, ta, "trise" \in SeqRange(T.cols) /\ IsNum(r.raw.trise) /\ IsNum(r.raw.tpeak))),
     Cl("C09.Inactive", Unlisted(S, n, ph), r.raw.wtok = <<>>) >>

-----------------------------------------------------------------------------
(* C07 : attribution to sources, Subsystem / System total / average / energy *)
RECURSIVE DomCands(_, _, _, _)
DomCands(S, R, n, ph) ==
  IF S.par[n] = <<>> THEN {n}
  ELSE IF Len(S.par[n]) > 1 /\ SelOf(S, R, n, ph) = 0
       THEN UNION {DomCands(S, R, S.par[n][i], ph) : i \in DOMAIN S.par[n]}
  ELSE DomCands(S, R, SupplyOf(S, R, n, ph), ph)

Special(T, name, ph) == {i \in DOMAIN T.rows : T.rows[i].comp = name /\ T.rows[i].phase = ph}
TotalDur(S) == DSumSeq([i \in DOMAIN S.sysph |-> DJ(S.sysph[i].dur)])
DurOf(S, ph) == DJ(S.sysph[CHOOSE i \in DOMAIN S.sysph : S.sysph[i].name = ph].dur)
D24 == DInt(24)
\* e is the 24 h energy of power p in phase ph
EnergyOK(S, ph, e, p) ==
  IF ph = "" THEN EqX(e, D24 \otimes p, D24 \otimes p, DZero)
  ELSE EqX(e \otimes TotalDur(S), (D24 \otimes p) \otimes DurOf(S, ph), (D24 \otimes p) \otimes DurOf(S, ph), DZero)
EffOK(eff, p, l) == IF DLt(DZero, p) THEN EqX(eff \otimes p, Hund \otimes DAbs(p \ominus l), Hund \otimes (p \oplus DAbs(l)), DZero)
                    ELSE DLeq(DZero, eff) /\ DLeq(eff, Hund)      \* (with no power the statement defines no efficiency: any value in range)

DomainRowClauses(S, R, n, ph, r, T, multi) ==
  << Cl("C07.Domain", multi /\ "domain" \in SeqRange(T.cols), r.raw.domain \in DomCands(S, R, n, ph)),
     Cl("C07.Energy.Row", "energy" \in SeqRange(T.cols) /\ IsNum(r.raw.energy), EnergyOK(S, ph, DJ(r.raw.energy), r.pwr)) >>

AggClauses(S, A, R, ph, T) ==
  LET N      == Names(S)
      ok     == \A n \in N : R[n, ph].ok
      Rp     == [n \in N |-> R[n, ph]]
      srcs   == Sources(S)
      multi  == Cardinality(srcs) > 1
      TC     == SeqRange(T.cols)
      totI   == Special(T, "System total", ph)
      tot    == T.rows[CHOOSE i \in totI : TRUE]
      psrc   == DSumSet(Rp, srcs, "pwr")
      lall   == DSumSet(Rp, N, "loss")
      anyW   == \E n \in N : Rp[n].raw.wtok # <<>>
      Member(x) == {n \in N : DomCands(S, R, n, ph) = {x}}
      MayBe(x)  == {n \in N : x \in DomCands(S, R, n, ph)}
      SubI(x)   == Special(T, "Subsystem " \o x, ph)
      Sub(x)    == T.rows[CHOOSE i \in SubI(x) : TRUE]
  IN
  << \* with several sources every source has its Subsystem row and the components are attributed (what a single-source
     \* table looks like is not part of the statement; a Subsystem row it may have is held to the same clauses)
     Cl("C07.SubsystemRows", multi, "domain" \in TC /\ \A x \in srcs : Cardinality(SubI(x)) = 1),
     Cl("C07.Total.Row", TRUE, Cardinality(totI) = 1),
     Cl("C07.Total.Power", ok /\ Cardinality(totI) = 1,
        IsNum(tot.pwr) /\ EqX(DJ(tot.pwr), psrc, psrc, DZero)),
     Cl("C07.Total.Loss", ok /\ Cardinality(totI) = 1,
        IsNum(tot.loss) /\ EqX(DJ(tot.loss), lall, DSumSet([n \in N |-> [loss |-> DAbs(Rp[n].loss)]], N, "loss"), psrc)),
     Cl("C07.Total.Eff", ok /\ Cardinality(totI) = 1 /\ IsNum(tot.pwr) /\ IsNum(tot.loss),
        /\ IsNum(tot.eff) /\ EffOK(DJ(tot.eff), DJ(tot.pwr), DJ(tot.loss))
        /\ DLeq(DJ(tot.eff), Hund \oplus DE(1, -3))),
     Cl("C07.Total.Iout", ok /\ ~multi /\ Cardinality(totI) = 1 /\ IsNum(tot.iout),
        \A x \in srcs : DEq(DJ(tot.iout), Rp[x].iout)),
     Cl("C07.Energy.Total", ok /\ Cardinality(totI) = 1 /\ "energy" \in TC /\ IsNum(tot.pwr),
        IsNum(tot.energy) /\ EnergyOK(S, ph, DJ(tot.energy), DJ(tot.pwr))),
     Cl("C09.RollUp.Total", ok /\ Cardinality(totI) = 1, (tot.warn = "Yes") = anyW),
     Cl("C07.Subsystem.VIP", ok /\ multi /\ \A x \in srcs : Cardinality(SubI(x)) = 1,
        \A x \in srcs :
           /\ IsNum(Sub(x).vin) /\ DEq(DJ(Sub(x).vin), Rp[x].vin)
           /\ IsNum(Sub(x).iout) /\ DEq(DJ(Sub(x).iout), Rp[x].iout)
           /\ IsNum(Sub(x).pwr) /\ DEq(DJ(Sub(x).pwr), Rp[x].pwr)),
     Cl("C07.Subsystem.Loss", ok /\ multi /\ \A x \in srcs : Cardinality(SubI(x)) = 1,
        \A x \in srcs :
           /\ IsNum(Sub(x).loss)
           /\ EqX(DJ(Sub(x).loss), DSumSet(Rp, Member(x), "loss"),
                  DSumSet([n \in N |-> [loss |-> DAbs(Rp[n].loss)]], Member(x), "loss"), Rp[x].pwr)
           /\ IsNum(Sub(x).eff) /\ IsNum(Sub(x).pwr) /\ EffOK(DJ(Sub(x).eff), DJ(Sub(x).pwr), DJ(Sub(x).loss))),
     Cl("C07.Energy.Subsystem", ok /\ multi /\ "energy" \in TC /\ \A x \in srcs : Cardinality(SubI(x)) = 1,
        \A x \in srcs : IsNum(Sub(x).energy) /\ IsNum(Sub(x).pwr) /\ EnergyOK(S, ph, DJ(Sub(x).energy), DJ(Sub(x).pwr))),
     Cl("C09.RollUp.Sub", ok /\ multi /\ \A x \in srcs : Cardinality(SubI(x)) = 1,
        \A x \in srcs :
           /\ (\E n \in Member(x) : Rp[n].raw.wtok # <<>>) => Sub(x).warn = "Yes"
           /\ Sub(x).warn = "Yes" => \E n \in MayBe(x) : Rp[n].raw.wtok # <<>>
           /\ Sub(x).warn \in {"Yes", ""})
  >>

\* System average over the solved phases (only when every phase was solved)
AvgClauses(S, A, R, PL, T) ==
  LET avI  == Special(T, "System average", "")
      av   == T.rows[CHOOSE i \in avI : TRUE]
      TC   == SeqRange(T.cols)
      want == Len(PL) > 1
      totOf(ph) == T.rows[CHOOSE i \in Special(T, "System total", ph) : TRUE]
      totsOK == \A i \in DOMAIN PL : Cardinality(Special(T, "System total", PL[i])) = 1
                   /\ IsNum(totOf(PL[i]).pwr) /\ IsNum(totOf(PL[i]).loss) /\ IsNum(totOf(PL[i]).eff)
      W(field) == DSumSeq([i \in DOMAIN PL |-> DurOf(S, PL[i]) \otimes DJ(totOf(PL[i])[field])])
      Mean(field) == IsNum(av[field]) /\ EqX(DJ(av[field]) \otimes TotalDur(S), W(field), W(field), DZero)
  IN
  << Cl("C07.Average.Row", TRUE, Cardinality(avI) = (IF want THEN 1 ELSE 0)),
     Cl("C07.Average.Power", want /\ Cardinality(avI) = 1 /\ totsOK, Mean("pwr")),
     Cl("C07.Average.Loss",  want /\ Cardinality(avI) = 1 /\ totsOK, Mean("loss")),
     \* the average's efficiency: the duration-weighted mean of the per-phase efficiencies (each cell a weighted mean), or
     \* the efficiency of the averaged power and loss (the row consistent in itself) - the statement admits both readings
     Cl("C07.Average.Eff",   want /\ Cardinality(avI) = 1 /\ totsOK,
        Mean("eff") \/ (IsNum(av.eff) /\ IsNum(av.pwr) /\ IsNum(av.loss) /\ EffOK(DJ(av.eff), DJ(av.pwr), DJ(av.loss)))),
     Cl("C07.Average.Iout",  want /\ Cardinality(avI) = 1 /\ totsOK /\ Cardinality(Sources(S)) = 1 /\ IsNum(av.iout)
                               /\ \A i \in DOMAIN PL : IsNum(totOf(PL[i]).iout), Mean("iout")),
     Cl("C07.Energy.Average", want /\ Cardinality(avI) = 1 /\ "energy" \in TC /\ IsNum(av.pwr),
        IsNum(av.energy) /\ EnergyOK(S, "", DJ(av.energy), DJ(av.pwr))),
     Cl("C07.Energy.Sum", want /\ Cardinality(avI) = 1 /\ "energy" \in TC /\ totsOK /\ IsNum(av.energy)
                            /\ \A i \in DOMAIN PL : IsNum(totOf(PL[i]).energy),
        LET sm == DSumSeq([i \in DOMAIN PL |-> DJ(totOf(PL[i]).energy)])
        IN EqX(sm, DJ(av.energy), sm, DZero))
  >>

-----------------------------------------------------------------------------
(* C08 : the rail report is the solve() table summed per supply rail         *)
RailIn(S, R, n, ph) == IF S.par[n] = <<>> THEN "" ELSE S.comps[SupplyOf(S, R, n, ph)].rail
OwnerOf(S, rl) == CHOOSE n \in Names(S) : S.comps[n].rail = rl
RailClauses(S, A, R, PL, T, RR) ==
  LET N     == Names(S)
      rails == Rails(S)
      ok    == \A n \in N, i \in DOMAIN PL : R[n, PL[i]].ok
      Fed(rl, ph) == {n \in N : RailIn(S, R, n, ph) = rl}
      RRow(rl, ph) == {i \in DOMAIN RR.rows : RR.rows[i].rail = rl /\ RR.rows[i].phase = ph}
      Row1(rl, ph) == RR.rows[CHOOSE i \in RRow(rl, ph) : TRUE]
      anyFed == \E rl \in rails, i \in DOMAIN PL : Fed(rl, PL[i]) # {}
      Rp(ph) == [n \in N |-> R[n, ph]]
      Toks(X, ph) == UNION {SeqRange(R[n, ph].raw.wtok) : n \in X}
  IN
  IF rails = {} THEN
     << Cl("C08.NoRails", TRUE, ~RR.isnone /\ RR.cols = T.cols /\ RR.rows = T.rows) >>
  ELSE
  << Cl("C08.None", ok, RR.isnone = ~anyFed \/ (~RR.isnone /\ ~anyFed /\ RR.rows = <<>>)),
     Cl("C08.RailSet", ok /\ ~RR.isnone,
        /\ \A i \in DOMAIN PL, rl \in rails : Fed(rl, PL[i]) # {} => Cardinality(RRow(rl, PL[i])) = 1
        /\ \A j \in DOMAIN RR.rows : RR.rows[j].rail \in rails /\ RR.rows[j].phase \in SeqRange(PL)
                                     /\ Cardinality(RRow(RR.rows[j].rail, RR.rows[j].phase)) = 1),
     Cl("C08.Voltage", ok /\ ~RR.isnone,
        \A i \in DOMAIN PL, rl \in rails :
           (Fed(rl, PL[i]) # {} /\ Cardinality(RRow(rl, PL[i])) = 1) =>
              IsNum(Row1(rl, PL[i]).volt) /\ DEq(DJ(Row1(rl, PL[i]).volt), R[OwnerOf(S, rl), PL[i]].vout)),
     Cl("C08.Sums", ok /\ ~RR.isnone,
        \A i \in DOMAIN PL, rl \in rails :
           Cardinality(RRow(rl, PL[i])) = 1 =>
              LET f == Fed(rl, PL[i]) rr == Row1(rl, PL[i]) ph == PL[i]
                  absl == DSumSet([n \in N |-> [loss |-> DAbs(R[n, ph].loss)]], f, "loss") IN
              /\ IsNum(rr.curr) /\ EqX(DJ(rr.curr), DSumSet(Rp(ph), f, "iin"), DSumSet(Rp(ph), f, "iin"), DZero)
              /\ IsNum(rr.pwr)  /\ EqX(DJ(rr.pwr), DSumSet(Rp(ph), f, "pwr"), DSumSet(Rp(ph), f, "pwr"), DZero)
              /\ IsNum(rr.loss) /\ EqX(DJ(rr.loss), DSumSet(Rp(ph), f, "loss"), absl, DZero)),
     Cl("C08.Warnings", ok /\ ~RR.isnone,
        \A i \in DOMAIN PL, rl \in rails :
           Cardinality(RRow(rl, PL[i])) = 1 =>
              SeqRange(Row1(rl, PL[i]).wtok) = Toks(Fed(rl, PL[i]), PL[i]))
  >>

-----------------------------------------------------------------------------
(* Clauses of one component row                                             *)
\* the law of a component with a tabulated parameter, exact class (used on probes only)
ExactTab(S, n, r) ==
  LET k   == Kind(S, n)
      P   == Par(S, n)
      av  == DAbs(r.vin)
      IsT(key) == key \in DOMAIN P /\ P[key].k \in {"t1", "t2"}
  IN
  /\ (IsT("ig") /\ (k \in {"LINREG", "PSWITCH", "PMUX"} \/ (k = "RECTIFIER" /\ ~IsDiode(S, n) /\ ~DIsZero(r.iout)))) =>
        \E f \in ParamVals(P["ig"], r.iout, r.vin) :
           EqX(r.iin \otimes f[2], (r.iout \otimes f[2]) \oplus f[1], (r.iin \oplus r.iout) \otimes f[2], DZero)
  /\ (IsT("eff") /\ k = "CONVERTER" /\ ~DIsZero(r.iout)) =>
        \E f \in ParamVals(P["eff"], r.iout, r.vin) :
           EqX((r.iin \otimes av) \otimes f[1], (PA(S, n, "vo") \otimes r.iout) \otimes f[2], (PA(S, n, "vo") \otimes r.iout) \otimes f[2], DZero)
  /\ (IsT("vdrop") /\ Cls(S, n) = "VLoss") =>
        \E f \in ParamVals(P["vdrop"], r.iout, r.vin) :
           EqX(DAbs(r.vout) \otimes f[2], (av \otimes f[2]) \ominus f[1], av \otimes f[2], DZero)
  /\ (IsT("vdrop") /\ k = "RECTIFIER" /\ IsDiode(S, n)) =>
        \E f \in ParamVals(P["vdrop"], r.iout, r.vin) :
           EqX(DAbs(r.vout) \otimes f[2], (av \otimes f[2]) \ominus (Two \otimes f[1]), av \otimes f[2], DZero)

RowClauses4(S, A, R, n, ph, r, sup, sel, kids, tol, ta, T) ==
  LET k      == Kind(S, n)
      src    == k = "SOURCE"
      load   == k = "LOAD"
      rs     == R[sup, ph]
      kidsOK == \A c \in kids : R[c, ph].ok
      sumKids == DSumSet([c \in kids |-> R[c, ph]], kids, "iin")
      thru   == DAbs(r.vin) \otimes (r.iin \oplus r.iout)
      dead   == IF src THEN ~OutLive(S, n, ph) ELSE ~InLive(S, n, ph)
      sleep  == ~src /\ Switchable(k) /\ ~Active(S, n, ph) /\ InLive(S, n, ph) /\ ~DIsZero(r.vin)
      hasT   == "trise" \in SeqRange(T.cols) /\ IsNum(r.raw.trise) /\ IsNum(r.raw.tpeak)
      heat   == IF load THEN DAbs(r.vin) \otimes r.iin ELSE r.loss
      handed == DAbs(r.vout) \otimes r.iout
  IN
  << \* ---- C01 : neighbours and transfer laws
     Cl("C01.Link.Vin",   ~src /\ rs.ok, DEq(r.vin, rs.vout)),
     Cl("C01.SourceVin",  src /\ OutLive(S, n, ph), EqS1(r.vin, PC(S, n, "vo"), tol)),
     Cl("C01.Link.Iout",  kidsOK,
        IF src THEN EqS1(r.iout, sumKids, tol)
        ELSE EqX(r.iout, sumKids, sumKids, thru)),
     Cl("C01.Law.Vout",   TRUE, VoutLaw(S, n, ph, sel, r.vin, r.iout, r.vout, tol)),
     Cl("C01.Law.Iin",    TRUE, IinLaw(S, n, ph, sel, r.vin, r.iout, r.iin, tol)),
     \* ---- C06 : the same laws, named by the phase behaviour they exercise
     Cl("C06.PhaseValue", load /\ HasConf(Conf(S, n)) /\ ConfHas(Conf(S, n), ph),
        IinLaw(S, n, ph, sel, r.vin, r.iout, r.iin, tol)),
     Cl("C06.SleepValue", load /\ HasConf(Conf(S, n)) /\ ~ConfHas(Conf(S, n), ph),
        IinLaw(S, n, ph, sel, r.vin, r.iout, r.iin, tol)),
     Cl("C06.ActiveList", Switchable(k) /\ HasConf(Conf(S, n)),
        VoutLaw(S, n, ph, sel, r.vin, r.iout, r.vout, tol) /\ IinLaw(S, n, ph, sel, r.vin, r.iout, r.iin, tol)),
     Cl("C06.NoConfig", S.sysph # <<>> /\ ~HasConf(Conf(S, n)),
        VoutLaw(S, n, ph, sel, r.vin, r.iout, r.vout, tol) /\ IinLaw(S, n, ph, sel, r.vin, r.iout, r.iin, tol)),
     \* ---- C02 : accounting
     Cl("C02.Acct.Power", ~load,
        IF src THEN EqX(r.pwr, PA(S, n, "vo") \otimes r.iout, r.pwr, thru)
        ELSE EqX(r.pwr, DAbs(r.vin) \otimes r.iin, r.pwr, thru)),
     \* the documented loss expression of the kind on the row's own quantities (exact class; a series drop is
     \* computed by the library with cancellation, hence the throughput term)
     \* ... or, equivalently at a steady state, what the statement itself says: Power minus what is handed on
     Cl("C02.Acct.Loss", ~load,
        \/ LossLaw(S, n, ph, sel, r.vin, r.vout, r.iin, r.iout, r.loss, LAMBDA x, y, sc : EqX(x, y, sc, thru))
        \/ (~src /\ EqX(r.loss, r.pwr \ominus handed, r.pwr \oplus handed, thru))),
     Cl("C02.LoadExclusive", load,
        IF IsLossLoad(S, n)
        THEN DIsZero(r.pwr) /\ EqX(r.loss, DAbs(r.vin) \otimes r.iin, r.loss, thru)
        ELSE DIsZero(r.loss) /\ EqX(r.pwr, DAbs(r.vin) \otimes r.iin, r.pwr, thru)),
     Cl("C02.Energy.Row", ~load,
        DLeq(DAbs((r.pwr \ominus r.loss) \ominus handed),
             TolP(DAbs(r.vin) \oplus DAbs(r.vout), r.iin \oplus r.iout, DMax(r.pwr, handed), tol))),
     Cl("C02.LossRange",  TRUE,
        /\ DLeq(DNeg(TolS(r.pwr, tol)), r.loss)
        /\ (~load => DLeq(r.loss, r.pwr \oplus TolS(r.pwr, tol)))),
     Cl("C02.Eff",        ~load /\ DLt(DZero, r.pwr),
        /\ \/ EqX(r.eff \otimes r.pwr, Hund \otimes (r.pwr \ominus r.loss), Hund \otimes (r.pwr \oplus DAbs(r.loss)), DZero)
           \/ DLeq(DAbs(r.pwr \ominus r.loss), TolS(r.pwr, tol))
        /\ DLeq(DZero, r.eff)
        \* (never above 100: up to the solver's own tolerance on the loss, i.e. 100 x TolP / Power)
        /\ DLeq((r.eff \ominus Hund) \otimes r.pwr,
                Hund \otimes TolP(DAbs(r.vin) \oplus DAbs(r.vout), r.iin \oplus r.iout, r.pwr, tol))),
     Cl("C02.Thermal.Rise", ~src /\ hasT,
        \/ EqX(DJ(r.raw.trise), Rt(S, n) \otimes heat, Rt(S, n) \otimes heat, DZero)
        \/ (load /\ EqX(DJ(r.raw.trise), Rt(S, n) \otimes r.loss, Rt(S, n) \otimes r.loss, DZero))),
     Cl("C02.Thermal.Peak", ~src /\ hasT, EqX(DJ(r.raw.tpeak), ta \oplus DJ(r.raw.trise), DAbs(ta) \oplus DAbs(DJ(r.raw.trise)), DZero)),
     \* the columns are hidden when no row has a positive rise; a loss that is negative by an unconverged digit (0 Ohm element)
     \* has a non-positive rise and does not force them to be shown
     Cl("C02.Thermal.Shown", ~src /\ ~hasT, DLeq(Rt(S, n) \otimes heat, DZero)),
     \* ---- C03 : the returned table is a converged state for the REQUESTED tolerances, and physical
     Cl("C03.Residual.Vout", TRUE, VoutLaw(S, n, ph, sel, r.vin, r.iout, r.vout, tol)),
     Cl("C03.Residual.Iin",  TRUE, IinLaw(S, n, ph, sel, r.vin, r.iout, r.iin, tol)),
     Cl("C03.PassiveNoGain", Passive(S, n), PassiveOK(S, n, r.vin, r.vout, tol)),
     Cl("C03.SourceNoGain",  src /\ OutLive(S, n, ph), SourceOK(S, n, r.vout, tol)),
     \* ---- C10 : a component with a tabulated parameter follows its law with an admissible table value
     Cl("C10.Value.Vout", HasTable(S, n), VoutLaw(S, n, ph, sel, r.vin, r.iout, r.vout, tol)),
     Cl("C10.Value.Iin",  HasTable(S, n), IinLaw(S, n, ph, sel, r.vin, r.iout, r.iin, tol)),
     \* on a probe (Source without resistance - X - constant-current load, or X as a leaf) input voltage and output current
     \* of X do not move during the iteration: its row follows the tabulated parameter in the exact class
     Cl("C10.Exact", A.probe /\ HasTable(S, n), ExactTab(S, n, r)),
     \* ---- C11 : consequences of the constructors' acceptance rule, on any solved system
     Cl("C11.LossNonNeg", TRUE, DLeq(DNeg(TolS(r.pwr, tol)), r.loss)),
     Cl("C11.EffLe100", DLt(DZero, r.pwr), DLeq(r.eff, Hund \oplus (Hund \otimes (KS \otimes (tol \oplus Atol))))),
     Cl("C11.PassiveNoGain", Passive(S, n) \/ (src /\ OutLive(S, n, ph)),
        IF src THEN SourceOK(S, n, r.vout, tol) ELSE PassiveOK(S, n, r.vin, r.vout, tol)),
     \* ---- C04 : dead rails and sleeping components
     Cl("C04.DeadRowZero", dead,
        DIsZero(r.vout) /\ DIsZero(r.iin) /\ DIsZero(r.iout) /\ DIsZero(r.pwr) /\ DIsZero(r.loss)),
     Cl("C04.SleepCurrent", sleep, DEq(r.iin, PA(S, n, "iis")) /\ DIsZero(r.vout)),
     Cl("C04.SleepPower",   sleep,
        /\ EqX(r.pwr, PA(S, n, "iis") \otimes DAbs(r.vin), r.pwr, DZero)
        /\ EqX(r.loss, PA(S, n, "iis") \otimes DAbs(r.vin), r.loss, DZero)),
     \* ---- C05 : power mux
     Cl("C05.Vin",  k = "PMUX" /\ rs.ok, DEq(r.vin, rs.vout)),
     Cl("C05.Vout", k = "PMUX", VoutLaw(S, n, ph, sel, r.vin, r.iout, r.vout, tol)),
     Cl("C05.Iin",  k = "PMUX", IinLaw(S, n, ph, sel, r.vin, r.iout, r.iin, tol)),
     Cl("C05.AllDead", k = "PMUX" /\ sel = 0,
        DIsZero(r.vout) /\ DIsZero(r.iin) /\ DIsZero(r.iout) /\ DIsZero(r.pwr) /\ DIsZero(r.loss)),
     Cl("C05.Parent", k = "PMUX" /\ sel # 0 /\ "parent" \in SeqRange(T.cols), r.raw.parent = sup),
     Cl("C05.RailIn", k = "PMUX" /\ sel # 0 /\ "railin" \in SeqRange(T.cols), r.raw.railin = S.comps[sup].rail),
     Cl("C05.Domain", k = "PMUX" /\ sel # 0 /\ "domain" \in SeqRange(T.cols), r.raw.domain = RootOf(S, sup))
  >>

\* the inputs of the mux that are not selected must not see its current: part of C01.Link.Iout of
\* those inputs; reported under C05 when the mux is among the children of the offending input
MuxChargeClauses(S, R, n, ph, r, kids, tol) ==
  LET muxkids == {m \in Children(S, n) : Kind(S, m) = "PMUX" /\ Len(S.par[m]) > 1 /\ m \notin kids}
      kidsOK  == \A c \in kids : R[c, ph].ok
      sumKids == DSumSet([c \in kids |-> R[c, ph]], kids, "iin")
  IN << Cl("C05.OnlySelectedCharged", muxkids # {} /\ kidsOK,
           IF Kind(S, n) = "SOURCE" THEN EqS1(r.iout, sumKids, tol)
           ELSE EqX(r.iout, sumKids, sumKids, DAbs(r.vin) \otimes (r.iin \oplus r.iout))) >>

RowClauses1(S, A, R, n, ph, r, tol, ta, T) ==
  IF ~r.ok THEN
     << Cl("C16.LiveComponents", TRUE, r.present = 1), Cl("C03.Finite", r.present = 1, r.fin) >>
  ELSE
     LET sup  == SupplyOf(S, R, n, ph)
         sel  == IF Kind(S, n) = "PMUX" THEN (IF Len(S.par[n]) = 1
                                               THEN (IF R[S.par[n][1], ph].ok /\ ~DIsZero(R[S.par[n][1], ph].vout) THEN 1 ELSE 0)
                                               ELSE SelOf(S, R, n, ph))
                 ELSE 0
         kids == {c \in Children(S, n) : SupplyOf(S, R, c, ph) = n}
     IN << Cl("C16.LiveComponents", TRUE, TRUE), Cl("C03.Finite", TRUE, TRUE) >>
        \o RowClauses4(S, A, R, n, ph, r, sup, sel, kids, tol, ta, T)
        \o MuxChargeClauses(S, R, n, ph, r, kids, tol)
        \o WarnClauses(S, A, R, n, ph, r, ta, T)
        \o DomainRowClauses(S, R, n, ph, r, T, Cardinality(Sources(S)) > 1)

\* system balance of one phase
PhaseClauses(S, A, R, ph, tol, T) ==
  LET N    == Names(S)
      totI == {i \in DOMAIN T.rows : T.rows[i].comp = "System total" /\ T.rows[i].phase = ph}
      tot  == T.rows[CHOOSE i \in totI : TRUE]
      sysTol == DInt(Cardinality(N)) \otimes TolP(DSumSet([n \in N |-> [x |-> DAbs(R[n, ph].vin) \oplus DAbs(R[n, ph].vout)]], N, "x"),
                                                   DSumSet([n \in N |-> [x |-> R[n, ph].iin \oplus R[n, ph].iout]], N, "x"),
                                                   DSumSet([n \in N |-> R[n, ph]], {n \in N : Kind(S, n) = "SOURCE"}, "pwr"), tol)
      ok   == \A n \in N : R[n, ph].ok
      Rp   == [n \in N |-> R[n, ph]]
      srcs == {n \in N : Kind(S, n) = "SOURCE"}
      lds  == {n \in N : Kind(S, n) = "LOAD"}
      psrc == DSumSet(Rp, srcs, "pwr")
      pld  == DSumSet(Rp, lds, "pwr")
      lss  == DSumSet(Rp, N, "loss")
  IN << Cl("C02.Energy.System", ok,
           DLeq(DAbs(psrc \ominus (pld \oplus lss)),
                DInt(Cardinality(N)) \otimes TolP(DSumSet([n \in N |-> [x |-> DAbs(Rp[n].vin) \oplus DAbs(Rp[n].vout)]], N, "x"),
                                                  DSumSet([n \in N |-> [x |-> Rp[n].iin \oplus Rp[n].iout]], N, "x"), psrc, tol))),
        \* the same balance on the row that reports it: the System total's power is what the loads consume plus its loss
        Cl("C02.Energy.TotalRow", ok /\ Cardinality(totI) = 1 /\ IsNum(tot.pwr) /\ IsNum(tot.loss),
           DLeq(DAbs(DJ(tot.pwr) \ominus (pld \oplus DJ(tot.loss))), sysTol)) >>

RECURSIVE FlatMap(_, _)
FlatMap(f, s) == IF s = <<>> THEN <<>> ELSE f[Head(s)] \o FlatMap(f, Tail(s))
RECURSIVE SetToSeq(_)
SetToSeq(X) == IF X = {} THEN <<>> ELSE LET x == CHOOSE x \in X : TRUE IN <<x>> \o SetToSeq(X \ {x})

\* tag every clause with the component / phase it was evaluated for
Tag(cls, n, ph) == [i \in DOMAIN cls |-> <<cls[i][1], cls[i][2], cls[i][3], n, ph>>]

Modelled(S) == /\ WellFormed(S)
               /\ \A n \in Names(S) : ShapeOK(S, n)

SolveClauses3(c, S, A, T, PL, R, tol, ta) ==
  LET pairs == SetToSeq(Names(S) \X SeqRange(PL))
  IN FlatMap([pr \in Names(S) \X SeqRange(PL) |->
                Tag(RowClauses1(S, A, R, pr[1], pr[2], R[pr[1], pr[2]], tol, ta, T), pr[1], pr[2])], pairs)
     \o FlatMap([ph \in SeqRange(PL) |-> Tag(PhaseClauses(S, A, R, ph, tol, T) \o AggClauses(S, A, R, ph, T), "", ph)],
                SetToSeq(SeqRange(PL)))
     \o Tag(AvgClauses(S, A, R, PL, T), "", "")
     \o (IF c.hasrail
         THEN Tag(<< Cl("C08.NoException", TRUE, c.railexc = "") >>, "", "")
              \o (IF c.railexc = "" THEN Tag(RailClauses(S, A, R, PL, T, c.rail), "", "") ELSE <<>>)
         ELSE <<>>)
SolveClauses2(c, S, A, T, PL) ==
  SolveClauses3(c, S, A, T, PL, Rows(S, T, PL), DMax(DJ(A.vtol), DJ(A.itol)), DJ(A.ta))
\* solve(phase = p) against the p-rows of the all-phase table.  The temperature columns are shown per
\* call only when some row has a temperature rise, so they may be absent in the single-phase table.
SliceClauses(c, A) ==
  LET T  == c.table
      U  == c.slice_of
      K  == SeqRange(T.cols) \cup {"wtok"}
      Of(X, ph) == {[k \in K |-> X.rows[i][k]] :
                      i \in {j \in DOMAIN X.rows : X.rows[j].phase = ph /\ X.rows[j].comp # "System average"}}
  IN Tag(<< Cl("C06.SinglePhaseEqualsSlice", c.has_slice,
               /\ ~T.isnone
               /\ SeqRange(T.cols) \subseteq SeqRange(U.cols)
               /\ SeqRange(U.cols) \ SeqRange(T.cols) \subseteq {"trise", "tpeak"}
               /\ Of(T, A.phase) = Of(U, A.phase)
               /\ Cardinality(Of(T, A.phase)) = Len(T.rows)) >>, "", A.phase)

\* C03 completeness: a system built around a designed steady state with modest series drops must be
\* solved, and the solution must be the designed state.  The designed state is first held to the laws
\* itself (a wrong derivation in the driver is a driver error, not a finding).
DesignUnits == DInt(20)
NearD(a, b, tol) == DLeq(DAbs(a \ominus b), DesignUnits \otimes (Atol \oplus (tol \otimes DMax(DAbs(a), DAbs(b)))))
DesignClauses(c, S, A) ==
  LET dg  == c.design
      N   == {dg[i].name : i \in DOMAIN dg}
      Dn(n) == dg[CHOOSE i \in DOMAIN dg : dg[i].name = n]
      tol == DMax(DJ(A.vtol), DJ(A.itol))
      T   == c.table
      lawsOK == \A n \in N :
                  /\ VoutLaw(S, n, "", 1, DJ(Dn(n).vin), DJ(Dn(n).iout), DJ(Dn(n).vout), tol)
                  /\ IinLaw(S, n, "", 1, DJ(Dn(n).vin), DJ(Dn(n).iout), DJ(Dn(n).iin), tol)
      found  == \A n \in N :
                  LET r == Decode(T, n, "") IN
                  r.ok /\ NearD(r.vout, DJ(Dn(n).vout), tol) /\ NearD(r.iin, DJ(Dn(n).iin), tol)
  IN Tag(<< Cl("driver.DesignedOK", TRUE, lawsOK),
            Cl("C03.FindsModest", lawsOK, c.outcome = "ok" /\ found) >>, "", "")

SolveClauses1(c, S, A) ==
  IF c.has_design THEN DesignClauses(c, S, A)
  ELSE IF A.phase # "" /\ A.phase \notin SeqRange(PhaseNames(S))
  THEN Tag(<< Cl("C06.UnknownPhase", TRUE, c.outcome = "exc" /\ c.exc = "ValueError") >>, "", A.phase)
  ELSE IF c.outcome = "ok" THEN SolveClauses2(c, S, A, c.table, PhaseList(S, A)) \o SliceClauses(c, A)
  ELSE Tag(<< Cl("C03.ExcClass", TRUE, c.exc \in {"RuntimeError", "ValueError"}) >>, "", "")

\* The system the caller configured (c.want: the state of the TLC construction behaviour the driver replayed through
\* the public API) against the projected state the reports are computed from: the rails, the mux input order and the
\* phase configurations in force must be the ones that were assigned.
WantClauses(c, S) ==
  IF ~c.haswant THEN <<>>
  ELSE LET W     == c.want
           WN    == {W[i].name : i \in DOMAIN W}
           At(n) == W[CHOOSE i \in DOMAIN W : W[i].name = n]
           same  == WN = Names(S)
           ConfKeys(cf) == IF cf.t = "map" THEN {cf.v[i][1] : i \in DOMAIN cf.v}
                           ELSE IF cf.t = "list" THEN SeqRange(cf.v) ELSE {}
       IN Tag(<< Cl("C08.RailsAsAssigned", TRUE, same /\ \A n \in WN : S.comps[n].rail = At(n).rail),
                 Cl("C05.InputsAsDeclared", TRUE, same /\ \A n \in WN : S.par[n] = At(n).par),
                 Cl("C07.SourcesAsBuilt", TRUE, same /\ \A n \in WN : S.comps[n].cls = At(n).cls),
                 \* every applicable limit handed to a constructor is the limit in force (as given: no re-ordering, no sign change)
                 Cl("C09.LimitsAsConfigured", c.wantlim # <<>>,
                    \A i \in DOMAIN c.wantlim :
                       LET wn == c.wantlim[i].name IN
                       wn \in Names(S) =>
                          \A j \in DOMAIN c.wantlim[i].lims :
                             LET l == c.wantlim[i].lims[j] IN
                             l.k \in LimKeys(S, wn) =>
                                \* (all limits but tp are compared by magnitude: the sign they are kept with is not observable)
                                /\ IF l.k = "tp" THEN DEq(LimOf(S, wn, l.k)[1], DJ(l.lo)) /\ DEq(LimOf(S, wn, l.k)[2], DJ(l.hi))
                                   ELSE DEq(DAbs(LimOf(S, wn, l.k)[1]), DAbs(DJ(l.lo))) /\ DEq(DAbs(LimOf(S, wn, l.k)[2]), DAbs(DJ(l.hi)))),
                 Cl("C06.ConfAsConfigured", TRUE,
                    same /\ \A n \in WN : S.pconf[n].t = At(n).ct /\ ConfKeys(S.pconf[n]) = SeqRange(At(n).ck)) >>, "", "")

\* a construction (or solve - edit - solve) history that the specification accepts must be accepted by the library:
\* otherwise the system the property quantifies over has no report at all
BuildProps == <<"C01", "C02", "C04", "C05", "C06", "C07", "C08", "C09">>
BuildClauses == Tag([i \in DOMAIN BuildProps |-> Cl(BuildProps[i] \o ".Build", TRUE, FALSE)], "", "")

\* a system solved after an edit (solve - edit - solve): the supply inputs of every mux are the ones the documented
\* effect of the edit yields (SysTree!OpEff), in the same priority order
EditClauses(c, S) ==
  IF ~c.hasedit THEN <<>>
  ELSE LET pre == StateOfJ(c.edit.pre)
           eff == OpEff(pre, c.edit.op, c.edit.args)
           ok  == WellFormed(pre) /\ OpOK(pre, c.edit.op, c.edit.args)
           \* the edit did what its documented effect says (components, links in order, rails, phase configurations, phases)
           asDoc == /\ Names(S) = DOMAIN eff.comps
                    /\ S.par = eff.par /\ S.pconf = eff.pconf
                    /\ \A n \in Names(S) : S.comps[n].rail = eff.comps[n].rail /\ S.comps[n].cls = eff.comps[n].cls
                    /\ [i \in DOMAIN S.sysph |-> S.sysph[i].name] = [i \in DOMAIN eff.sysph |-> eff.sysph[i].name]
       IN Tag(<< Cl("C05.InputOrderAfterEdit", ok /\ Muxes(pre) # {},
                    /\ Names(S) = DOMAIN eff.comps
                    /\ \A m \in Muxes(S) : S.par[m] = eff.par[m]) >>, "", "")
          \o (IF ok /\ ~asDoc THEN BuildClauses ELSE <<>>)

\* solve() of a system inside the modelled class may only raise the documented RuntimeError / ValueError; any other
\* exception (OverflowError from a stale registry, KeyError, IndexError ...) means the system has no report either
Crashed(c) == c.outcome = "exc" /\ c.exc \notin {"RuntimeError", "ValueError", "TypeError"}

CaseClauses(c, S) ==
  IF ~c.built \/ (Crashed(c) /\ Modelled(S)) THEN BuildClauses
  ELSE EditClauses(c, S) \o WantClauses(c, S) \o
       (IF ~Modelled(S) THEN Tag(<< Cl("note.Unmodelled", TRUE, FALSE) >>, "", "")
        ELSE SolveClauses1(c, S, c.args))

AllClauseNames ==
  {"C01.Link.Vin", "C01.SourceVin", "C01.Link.Iout", "C01.Law.Vout", "C01.Law.Iin",
   "C02.Acct.Power", "C02.Acct.Loss", "C02.LoadExclusive", "C02.Energy.Row", "C02.LossRange", "C02.Eff",
   "C02.Thermal.Rise", "C02.Thermal.Peak", "C02.Thermal.Shown", "C02.Energy.System", "C02.Energy.TotalRow",
   "C03.Finite", "C03.PassiveNoGain", "C03.SourceNoGain", "C03.ExcClass",
   "C04.DeadRowZero", "C04.SleepCurrent", "C04.SleepPower",
   "C05.Vin", "C05.Vout", "C05.Iin", "C05.AllDead", "C05.Parent", "C05.RailIn", "C05.Domain",
   "C05.OnlySelectedCharged", "C16.LiveComponents", "note.Unmodelled", "events",
   "C09.Exact", "C09.Inactive", "C09.RollUp.Total", "C09.RollUp.Sub",
   "C07.Domain", "C07.Energy.Row", "C07.SubsystemRows", "C07.Total.Row", "C07.Total.Power",
   "C07.Total.Loss", "C07.Total.Eff", "C07.Total.Iout", "C07.Energy.Total", "C07.Subsystem.VIP",
   "C07.Subsystem.Loss", "C07.Energy.Subsystem", "C07.Average.Row", "C07.Average.Power",
   "C07.Average.Loss", "C07.Average.Eff", "C07.Average.Iout", "C07.Energy.Average", "C07.Energy.Sum",
   "C10.Value.Vout", "C10.Value.Iin", "C10.Exact", "C11.LossNonNeg", "C11.EffLe100", "C11.PassiveNoGain",
   "driver.DesignedOK", "C03.FindsModest", "C03.Residual.Vout", "C03.Residual.Iin",
   "C06.PhaseValue", "C06.SleepValue", "C06.ActiveList", "C06.NoConfig", "C06.SinglePhaseEqualsSlice",
   "C06.UnknownPhase", "C05.InputOrderAfterEdit", "C01.Build", "C02.Build", "C04.Build", "C05.Build", "C06.Build", "C07.Build", "C08.Build", "C09.Build", "C08.RailsAsAssigned", "C05.InputsAsDeclared", "C07.SourcesAsBuilt", "C09.LimitsAsConfigured", "C06.ConfAsConfigured", "C08.NoException", "C08.NoRails", "C08.None", "C08.RailSet", "C08.Voltage", "C08.Sums", "C08.Warnings"}

Init == ci = 1 /\ verd = <<>> /\ stat = [c \in AllClauseNames |-> 0]

Count(cls, name) == Cardinality({i \in DOMAIN cls : cls[i][1] = name /\ cls[i][2]})

Step2(c, cls, bad) ==
  /\ verd' = verd \o SetToSeq({[tid |-> c.id, k |-> 1, clause |-> cls[i][1], op |-> cls[i][4], phase |-> cls[i][5]] : i \in bad})
  /\ stat' = [nm \in AllClauseNames |-> stat[nm] + (IF nm = "events" THEN 1 ELSE Count(cls, nm))]
  /\ ci' = ci + 1
Step1(c, cls) == Step2(c, cls, {i \in DOMAIN cls : cls[i][2] /\ ~cls[i][3]})
Step == ci <= Len(Batch) /\ Step1(Batch[ci], CaseClauses(Batch[ci], StateOfJ(Batch[ci].st)))

Next == Step
Spec == Init /\ [][Next]_vars
Finished == ci > Len(Batch) => JsonSerialize(IOEnv.OUT_FILE, [verd |-> verd, stat |-> stat])
=============================================================================
