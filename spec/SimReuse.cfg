SPECIFICATION SpecReuse
CONSTANTS
  NameU = {"a", "b", "c", "d", "e", "f", "g", "h"}
  RailU = {"", "r1", "r2", "r3", "b", "e"}
  ClassU = {"Source", "PLoad", "ILoad", "RLoad", "RLoss", "VLoss", "Converter", "LinReg", "PSwitch", "PMux", "Rectifier"}
  PayU = {0, 1}
  GroupU = {"", "g1", "g2"}
  ConfU <- CfgConfSim
  SysPhU <- CfgSysPhSim
  MaxRefs = 3
  InitName = "a"
INVARIANT InvWellFormed
PROPERTY RejectedUnchanged
CHECK_DEADLOCK FALSE
