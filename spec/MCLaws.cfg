SPECIFICATION Spec
INVARIANT Accepts
INVARIANT Rejects
INVARIANT EnergyRow
INVARIANT LossBounds
INVARIANT EffRange
INVARIANT PassiveNoGain
INVARIANT Mirror
CHECK_DEADLOCK FALSE
