SPECIFICATION Spec
CONSTANTS NW = 3 NL = 3 NT = 2 NR = 2 NTemp = 3 NTcr = 2
INVARIANT Theorems
CHECK_DEADLOCK FALSE
