SPECIFICATION Spec
CONSTANTS NPhases = 3 MaxSteps = 7 IsSource = TRUE
INVARIANT BattRestored
INVARIANT PhaseCycle
INVARIANT LogShape
INVARIANT OnlySourceDepleted
CHECK_DEADLOCK FALSE
