-------------------------------- MODULE Utils --------------------------------
(***************************************************************************)
(* trace_res / plane_res (C20), stated cross-multiplied over exact decimals: *)
(*   trace:  R * A = rho * L * (1 + tcr * (T - 20)),  A = (w1 + w2)/2 * t    *)
(*           with w, t, L in mm:  R * ((w1 + w2) * t) = 2000 * rho * L * K   *)
(*   plane:  R * (t/1000) * w = rho * l * K                                  *)
(* and the algebraic properties the statement lists, checked on partner     *)
(* tuples (scaled / swapped arguments) chosen by the model.                  *)
(* A case: [id, kind, a = argument record, r = result, partner?, rp?]        *)
(***************************************************************************)
EXTENDS Dec, FiniteSets, TLC, Json, IOUtils

Batch == JsonDeserialize(IOEnv.TRACE_FILE)
VARIABLES ci, verd, stat
vars == <<ci, verd, stat>>
Cl(name, app, cond) == <<name, app, IF app THEN cond ELSE TRUE>>

One == DInt(1)
\* relative closeness 1e-12 (the functions are a handful of float operations)
Rel(a, b) == DLeq(DAbs(a \ominus b), DE(1, -12) \otimes DMax(DAbs(a), DAbs(b)))
KT(a)     == One \oplus (DJ(a.tcr) \otimes (DJ(a.temp) \ominus DInt(20)))

TraceLaw(a, r) ==
  Rel(r \otimes ((DJ(a.w1) \oplus DJ(a.w2)) \otimes DJ(a.t)),
      DInt(2000) \otimes ((DJ(a.rho) \otimes DJ(a.l)) \otimes KT(a)))
PlaneLaw(a, r) ==
  Rel((r \otimes DJ(a.t)) \otimes DJ(a.w), DInt(1000) \otimes ((DJ(a.rho) \otimes DJ(a.l)) \otimes KT(a)))

\* relation between the results of a case and its partner (same function, one argument changed)
PartnerOK(c) ==
  LET r == DJ(c.r) rp == DJ(c.rp) f == DJ(c.factor) IN
  CASE c.rel = "propL"    -> Rel(rp, r \otimes f)              \* length * f  -> R * f
    [] c.rel = "propRho"  -> Rel(rp, r \otimes f)              \* rho * f     -> R * f
    [] c.rel = "invT"     -> Rel(rp \otimes f, r)              \* thickness*f -> R / f
    [] c.rel = "invW"     -> Rel(rp \otimes f, r)              \* width(s)*f  -> R / f
    [] c.rel = "symm"     -> Rel(rp, r)                        \* w1 <-> w2
    [] c.rel = "plane"    -> Rel(rp, r)                        \* trace(W,W,L) = plane(W,L)
    \* affine in temperature: R(T1), R(T2), R(T3) with T3 - T2 = T2 - T1  => R3 - R2 = R2 - R1
    [] c.rel = "affine"   -> DLeq(DAbs((DJ(c.rq) \ominus rp) \ominus (rp \ominus r)),
                                  DE(1, -10) \otimes (DAbs(DJ(c.rq)) \oplus DAbs(rp) \oplus DAbs(r)))

CaseClauses(c) ==
  << Cl("C20.Finite", TRUE, IsNum(c.r)),
     Cl("C20.Trace", c.kind = "trace" /\ IsNum(c.r), TraceLaw(c.a, DJ(c.r))),
     Cl("C20.Plane", c.kind = "plane" /\ IsNum(c.r), PlaneLaw(c.a, DJ(c.r))),
     Cl("C20." \o c.rel, c.rel # "" /\ IsNum(c.r) /\ IsNum(c.rp), PartnerOK(c)) >>

AllClauseNames == {"C20.Finite", "C20.Trace", "C20.Plane", "C20.propL", "C20.propRho", "C20.invT", "C20.invW",
                   "C20.symm", "C20.plane", "C20.affine", "events"}
RECURSIVE SetToSeq(_)
SetToSeq(X) == IF X = {} THEN <<>> ELSE LET x == CHOOSE x \in X : TRUE IN <<x>> \o SetToSeq(X \ {x})
Init == ci = 1 /\ verd = <<>> /\ stat = [c \in AllClauseNames |-> 0]
Step2(c, cls, bad) ==
  /\ verd' = verd \o SetToSeq({[tid |-> c.id, k |-> 1, clause |-> cls[i][1], op |-> c.kind, phase |-> c.rel] : i \in bad})
  /\ stat' = [nm \in AllClauseNames |-> stat[nm] + (IF nm = "events" THEN 1
                 ELSE Cardinality({i \in DOMAIN cls : cls[i][1] = nm /\ cls[i][2]}))]
  /\ ci' = ci + 1
Step1(c, cls) == Step2(c, cls, {i \in DOMAIN cls : cls[i][2] /\ ~cls[i][3]})
Step == ci <= Len(Batch) /\ Step1(Batch[ci], CaseClauses(Batch[ci]))
Next == Step
Spec == Init /\ [][Next]_vars
Finished == ci > Len(Batch) => JsonSerialize(IOEnv.OUT_FILE, [verd |-> verd, stat |-> stat])
=============================================================================
