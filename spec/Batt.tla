-------------------------------- MODULE Batt --------------------------------
(***************************************************************************)
(* batt_life(battery, cutoff, pfunc, dfunc) as a state machine.  The        *)
(* environment is the battery model behind the two callbacks: every call    *)
(* returns a battery state (alive, or dead because the capacity ran out or  *)
(* the voltage fell to the cutoff) or raises; the solver may raise as well. *)
(*                                                                          *)
(*  start -> probe -> guard -> (set -> solve -> deplete -> guard)* ->        *)
(*           restore -> done            any failure -> restore -> failed    *)
(*                                                                          *)
(* src tells whose parameters the battery Source carries: the user's        *)
(* ("orig") or the probed ones.  C17: in every terminal state src = orig.   *)
(* C18: the k-th depletion is called with the duration of phase             *)
(* ((k-1) mod n)+1; the log holds the initial state and every later alive   *)
(* state and stops at the first dead one.                                   *)
(***************************************************************************)
EXTENDS Naturals, Sequences

CONSTANTS NPhases,       \* number of system phases (0 = no phases)
          MaxSteps,      \* bound on depletion steps explored
          IsSource       \* is the named component a Source?

VARIABLES pc, src, ph, steps, log, last, failing
vars == <<pc, src, ph, steps, log, last, failing>>
\* log  : sequence of "alive" entries recorded (the initial probe included, whatever it is)
\* last : the state the battery model returned last: "alive" | "dead"
BState == {"alive", "dead"}
NextPh(p) == IF NPhases = 0 THEN 0 ELSE (p % NPhases) + 1

Init == /\ pc = "start" /\ src = "orig" /\ ph = (IF NPhases = 0 THEN 0 ELSE 1)
        /\ steps = 0 /\ log = <<>> /\ last = "none" /\ failing = FALSE

Start == /\ pc = "start"
         /\ IF IsSource THEN pc' = "probe" ELSE pc' = "failed"      \* ValueError, nothing touched
         /\ UNCHANGED <<src, ph, steps, log, last, failing>>

Probe == /\ pc = "probe"
         /\ \/ \E b \in BState : /\ last' = b /\ log' = <<b>> /\ pc' = "guard" /\ failing' = FALSE
            \/ /\ pc' = "restore" /\ failing' = TRUE /\ UNCHANGED <<last, log>>   \* pfunc raised
         /\ UNCHANGED <<src, ph, steps>>

Guard == /\ pc = "guard"
         /\ pc' = IF last = "alive" /\ steps < MaxSteps THEN "set" ELSE "restore"
         /\ UNCHANGED <<src, ph, steps, log, last, failing>>

SetSource == /\ pc = "set" /\ src' = "probed" /\ pc' = "solve"
             /\ UNCHANGED <<ph, steps, log, last, failing>>

SolveStep == /\ pc = "solve"
             /\ \/ pc' = "deplete" /\ failing' = FALSE
                \/ pc' = "restore" /\ failing' = TRUE                 \* the solver raised
             /\ UNCHANGED <<src, ph, steps, log, last>>

\* dfunc(duration of phase ph, solved current)
Deplete == /\ pc = "deplete"
           /\ \/ \E b \in BState :
                    /\ last' = b /\ steps' = steps + 1 /\ ph' = NextPh(ph)
                    /\ log' = IF b = "alive" THEN Append(log, b) ELSE log
                    /\ pc' = "guard" /\ failing' = FALSE
              \/ /\ pc' = "restore" /\ failing' = TRUE /\ UNCHANGED <<last, steps, ph, log>>   \* dfunc raised
           /\ UNCHANGED src

Restore == /\ pc = "restore" /\ src' = "orig"
           /\ pc' = IF failing THEN "failed" ELSE "done"
           /\ UNCHANGED <<ph, steps, log, last, failing>>

Next == Start \/ Probe \/ Guard \/ SetSource \/ SolveStep \/ Deplete \/ Restore
Spec == Init /\ [][Next]_vars

\* ---- C17 -----------------------------------------------------------------
BattRestored == pc \in {"done", "failed"} => src = "orig"
\* ---- C18 -----------------------------------------------------------------
PhaseCycle == NPhases > 0 => ph = (steps % NPhases) + 1
LogShape   == /\ Len(log) <= steps + 1
              /\ (pc = "done" /\ steps < MaxSteps) => last = "dead"
              /\ \A i \in 2..Len(log) : log[i] = "alive"
OnlySourceDepleted == (~IsSource) => (pc \in {"start", "failed"} /\ steps = 0 /\ src = "orig")
=============================================================================
