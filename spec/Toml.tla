-------------------------------- MODULE Toml --------------------------------
(***************************************************************************)
(* Kind.from_file(name, fname=f): the generic TOML loader (C13).            *)
(* The file has a section named after the kind holding the parameters and   *)
(* an optional [limits] table.  The loader walks the parameter schema of    *)
(* the kind in order: an optional key takes the file value or the           *)
(* constructor default, a missing mandatory key raises KeyError, a value    *)
(* whose TOML type is not accepted for the key raises ValueError; the       *)
(* collected values go to the constructor, whose verdict is final.          *)
(* A case is (kind, forms) with forms[i] the form of the i-th schema key:   *)
(*   "absent" | "int" | "float" | "str" | "bool" | "list" | "table"          *)
(* MCToml.tla enumerates every case as a state; TraceToml.tla uses Class as *)
(* the oracle for the executed cases.                                       *)
(***************************************************************************)
EXTENDS Naturals, Sequences, FiniteSets

Forms == {"absent", "int", "float", "str", "bool", "list", "table"}
Num   == {"int", "float"}
K(key, types, opt) == [key |-> key, types |-> types, opt |-> opt]

Schema(kind) ==
  CASE kind = "Source"    -> << K("vo", Num, FALSE), K("rs", Num, TRUE) >>
    [] kind = "PLoad"     -> << K("pwr", Num, FALSE), K("pwrs", Num, TRUE), K("rt", Num, TRUE), K("loss", {"bool"}, TRUE) >>
    [] kind = "ILoad"     -> << K("ii", Num, FALSE), K("iis", Num, TRUE), K("rt", Num, TRUE), K("loss", {"bool"}, TRUE) >>
    [] kind = "RLoad"     -> << K("rs", Num, FALSE), K("rt", Num, TRUE), K("loss", {"bool"}, TRUE) >>
    [] kind = "RLoss"     -> << K("rs", Num, FALSE), K("rt", Num, TRUE) >>
    [] kind = "VLoss"     -> << K("vdrop", Num \cup {"table"}, FALSE), K("rt", Num, TRUE) >>
    [] kind = "Converter" -> << K("vo", Num, FALSE), K("eff", {"float", "table"}, FALSE), K("iq", Num, TRUE),
                                K("iis", Num, TRUE), K("rt", Num, TRUE) >>
    [] kind = "PSwitch"   -> << K("rs", Num, TRUE), K("ig", Num \cup {"table"}, TRUE), K("iis", Num, TRUE), K("rt", Num, TRUE) >>
    [] kind = "PMux"      -> << K("rs", Num \cup {"list"}, TRUE), K("ig", Num \cup {"table"}, TRUE), K("iis", Num, TRUE),
                                K("rt", Num, TRUE) >>
    [] kind = "Rectifier" -> << K("vdrop", Num \cup {"table"}, FALSE), K("rs", Num \cup {"list"}, TRUE),
                                K("ig", Num \cup {"table"}, TRUE), K("iq", Num, TRUE), K("rt", Num, TRUE) >>
    \* LinReg has its own loader without a type gate; only well-typed forms are in its model
    [] kind = "LinReg"    -> << K("vo", Num, FALSE), K("vdrop", Num, TRUE), K("ig", Num \cup {"table"}, TRUE),
                                K("iis", Num, TRUE), K("rt", Num, TRUE) >>

GenericKinds == {"Source", "PLoad", "ILoad", "RLoad", "RLoss", "VLoss", "Converter", "PSwitch", "PMux", "Rectifier"}
Kinds == GenericKinds \cup {"LinReg"}

Missing(kind, forms)   == {i \in DOMAIN Schema(kind) : ~Schema(kind)[i].opt /\ forms[i] = "absent"}
BadType(kind, forms)   == {i \in DOMAIN Schema(kind) : forms[i] # "absent" /\ forms[i] \notin Schema(kind)[i].types}

\* a TOML integer where the schema lists floats only (eff = 1): the constructor takes the integer (Converter(eff=1) is a
\* legal call), so "the file equals the constructor call" and "a wrong type is rejected" both apply - either answer is right
IntForFloat(kind, forms) == {i \in BadType(kind, forms) : forms[i] = "int" /\ "float" \in Schema(kind)[i].types}

\* what the loader must do
Class(kind, forms) ==
  IF Missing(kind, forms) # {} /\ BadType(kind, forms) # {} THEN "Either"     \* both faults: either exception
  ELSE IF Missing(kind, forms) # {} THEN "KeyError"
  ELSE IF BadType(kind, forms) # {} THEN
       (IF BadType(kind, forms) \subseteq IntForFloat(kind, forms) THEN "CtorOrValueError" ELSE "ValueError")
  ELSE "Ctor"                                                                  \* same as Kind(name, **P, limits=L)

=============================================================================
