------------------------------- MODULE MCCtor -------------------------------
(* bounded model of the constructors: every (kind, form assignment) is a state; one parameter
   (the focus) ranges over all its forms while the others range over a reduced set *)
EXTENDS Ctor
VARIABLES kind, a, rej
vars == <<kind, a, rej>>

Reduce(S) == IF Cardinality(S) <= 3 THEN S ELSE S \cap {"absent", "pos", "neg", "ok", "small", "true", "t1"}
\* all assignments in which at most one parameter leaves its reduced form set
RECURSIVE Prod(_, _)
Prod(keys, S) == IF keys = {} THEN {<<>>}
                 ELSE LET k == CHOOSE k \in keys : TRUE IN
                      {(k :> v) @@ f : v \in S[k], f \in Prod(keys \ {k}, S)}
Assignments(k) ==
  LET sp == Space(k) keys == DOMAIN sp IN
  UNION { Prod(keys, [x \in keys |-> IF x = focus THEN sp[x] ELSE Reduce(sp[x])]) : focus \in keys }

Init == /\ kind \in Kinds
        /\ a \in Assignments(kind)
        /\ rej = Rejects(kind, a)
Next == UNCHANGED vars
Spec == Init /\ [][Next]_vars
Physical == AcceptedIsPhysical(kind, a) /\ rej = Rejects(kind, a)
=============================================================================
