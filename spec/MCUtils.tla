------------------------------- MODULE MCUtils -------------------------------
(***************************************************************************)
(* Argument lattice for trace_res / plane_res: TLC enumerates every tuple   *)
(* of lattice indices and every metamorphic partner relation; each state is *)
(* one case handed to the driver.  The algebraic consequences of the        *)
(* formula (proportional in L and rho, inverse in t and w, symmetric in      *)
(* w1/w2, trace = plane for w1 = w2) are checked here on the integer        *)
(* lattice itself (cross-multiplied), so that the partner relations the     *)
(* code is held to are theorems of the documented formula.                  *)
(***************************************************************************)
EXTENDS Naturals
CONSTANTS NW, NL, NT, NR, NTemp, NTcr
Rels == {"propL", "propRho", "invT", "invW", "symm", "plane", "affine"}
VARIABLES kind, iw1, iw2, il, it, irho, itemp, itcr, rel, fac
vars == <<kind, iw1, iw2, il, it, irho, itemp, itcr, rel, fac>>

\* integer model of the formula: numerator / denominator of R (units chosen so that all are integers)
\* R = 2 * rho * L * K / ((w1 + w2) * t),  K = 1000 + tcr * (temp - 20)   (tcr in 1/1000)
Num(rho, l, temp, tcr) == 2 * rho * l * (1000 + tcr * temp)
Den(w1, w2, t) == (w1 + w2) * t

Init == /\ kind \in {"trace", "plane"}
        /\ iw1 \in 1..NW /\ iw2 \in 1..NW /\ il \in 1..NL /\ it \in 1..NT /\ irho \in 1..NR
        /\ itemp \in 0..NTemp /\ itcr \in 0..NTcr
        /\ rel \in Rels /\ fac \in 2..3
Next == UNCHANGED vars
Spec == Init /\ [][Next]_vars

\* theorems of the formula on the lattice (cross-multiplied, exact)
PropL   == Num(irho, il * fac, itemp, itcr) * Den(iw1, iw2, it) = fac * Num(irho, il, itemp, itcr) * Den(iw1, iw2, it)
PropRho == Num(irho * fac, il, itemp, itcr) = fac * Num(irho, il, itemp, itcr)
InvT    == Den(iw1, iw2, it * fac) = fac * Den(iw1, iw2, it)
InvW    == Den(iw1 * fac, iw2 * fac, it) = fac * Den(iw1, iw2, it)
Symm    == Den(iw1, iw2, it) = Den(iw2, iw1, it)
\* plane(w, l) = rho * l * K / (t * w): with w1 = w2 = w the trace formula gives 2*rho*l*K / (2*w*t)
PlaneEq == Num(irho, il, itemp, itcr) * (iw1 * it) = (irho * il * (1000 + itcr * itemp)) * Den(iw1, iw1, it)
Affine  == Num(irho, il, itemp + 2, itcr) - Num(irho, il, itemp + 1, itcr)
             = Num(irho, il, itemp + 1, itcr) - Num(irho, il, itemp, itcr)
Theorems == PropL /\ PropRho /\ InvT /\ InvW /\ Symm /\ PlaneEq /\ Affine
=============================================================================
