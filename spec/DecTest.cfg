INIT Init
NEXT Next
