------------------------------ MODULE TraceDiag ------------------------------
(***************************************************************************)
(* Validation of rendered diagrams (C19).  A case:                          *)
(*  [id, st (projected state), group (BOOLEAN), heat (BOOLEAN), outcome,    *)
(*   conf = [node = [default, over = <<[key, attrs]>>],                      *)
(*           cluster = [default, over = <<[key, attrs]>>], edge],           *)
(*   nodes = <<[name, attrs = <<[k, v]>>, cluster, val, rgb]>>,              *)
(*   clusters = <<[label, attrs = <<[k, v]>>]>>, edges = <<<<src, dst>>>>,  *)
(*   losses = <<[name, num, den]>>   duration-weighted loss = num / den,     *)
(*   legend, conf0, conf1 (digests of the caller's configuration)]          *)
(* Attribute maps are sequences of [key, value] pairs of strings.           *)
(***************************************************************************)
EXTENDS Dec, FiniteSets, TLC, Json, IOUtils, Integers

Batch == JsonDeserialize(IOEnv.TRACE_FILE)
VARIABLES ci, verd, stat
tvars == <<ci, verd, stat>>
Cl(name, app, cond) == <<name, app, IF app THEN cond ELSE TRUE>>
SeqRange(s) == {s[i] : i \in DOMAIN s}

Keys(m) == {m[i][1] : i \in DOMAIN m}
Get(m, k) == m[CHOOSE i \in DOMAIN m : m[i][1] = k][2]
AsSet(m) == {<<m[i][1], m[i][2]>> : i \in DOMAIN m}
\* attributes `base` overridden by `over`
Over(base, over) == {p \in AsSet(base) : p[1] \notin Keys(over)} \cup AsSet(over)
OverOf(cf, key) == LET I == {i \in DOMAIN cf.over : cf.over[i][1] = key}
                   IN IF I = {} THEN <<>> ELSE cf.over[CHOOSE i \in I : TRUE][2]

CompOf(c, n) == c.st.comps[CHOOSE i \in DOMAIN c.st.comps : c.st.comps[i].name = n]
Names(c) == {c.st.comps[i].name : i \in DOMAIN c.st.comps}
NodeOf(c, n) == c.nodes[CHOOSE i \in DOMAIN c.nodes : c.nodes[i].name = n]
\* default -> component kind -> component name
ExpAttrs(c, n) ==
  LET d  == AsSet(c.conf.node.default)
      k  == OverOf(c.conf.node, CompOf(c, n).cls)
      nm == OverOf(c.conf.node, n)
      a1 == {p \in d : p[1] \notin Keys(k)} \cup AsSet(k)
      a2 == {p \in a1 : p[1] \notin Keys(nm)} \cup AsSet(nm)
  IN a2
HeatKeys == {"fillcolor", "fontcolor", "label"}

Groups(c) == {c.st.comps[i].group : i \in DOMAIN c.st.comps} \ {""}
LossOf(c, n) == c.losses[CHOOSE i \in DOMAIN c.losses : c.losses[i].name = n]
\* shown value v is the loss num/den to three significant digits
Shown(v, l) == DLeq(DAbs((DJ(v) \otimes DJ(l.den)) \ominus DJ(l.num)),
                    (DE(5, -3) \otimes DAbs(DJ(l.num))) \oplus (DE(1, -18) \otimes DJ(l.den)))
\* a / b <= c / d  for positive denominators
LeqFr(a, b) == DLeq(DJ(a.num) \otimes DJ(b.den), DJ(b.num) \otimes DJ(a.den))

\* position of a colour along the cold -> warm axis of the scale (a scalar product, integers)
Along(c, rgb) == (rgb[1] - c.cold[1]) * (c.warm[1] - c.cold[1]) + (rgb[2] - c.cold[2]) * (c.warm[2] - c.cold[2])
                 + (rgb[3] - c.cold[3]) * (c.warm[3] - c.cold[3])

CaseClauses(c) ==
  LET N     == Names(c)
      rn    == {c.nodes[i].name : i \in DOMAIN c.nodes}
      ok    == c.outcome = "ok"
      clOn  == c.group /\ Groups(c) # {}
      edgesExp == UNION {{<<CompOf(c, n).par[j], n>> : j \in DOMAIN CompOf(c, n).par} : n \in N}
      maxL(n) == \A m \in N : LeqFr(LossOf(c, m), LossOf(c, n))
      posMax  == \E n \in N : DLt(DZero, DJ(LossOf(c, n).num))
  IN
  << \* (a heat diagram of a system whose solve() raises its documented errors has no losses to show: C03's matter)
     Cl("C19.Renders", ~c.solve_failed, ok),
     \* one node per component and nothing else - apart from the heat-scale legend (one further node, whatever its name)
     Cl("C19.Nodes", ok, /\ N \subseteq rn /\ Len(c.nodes) = Cardinality(rn)
                         /\ Cardinality(rn \ N) <= (IF c.heat THEN 1 ELSE 0)),
     Cl("C19.Edges", ok, {<<c.edges[i][1], c.edges[i][2]>> : i \in DOMAIN c.edges} = edgesExp
                         /\ Len(c.edges) = Cardinality(edgesExp)),
     Cl("C19.Clusters", ok,
        /\ {c.clusters[i].label : i \in DOMAIN c.clusters} = (IF clOn THEN Groups(c) ELSE {})
        /\ Len(c.clusters) = (IF clOn THEN Cardinality(Groups(c)) ELSE 0)
        /\ \A n \in N \cap rn : NodeOf(c, n).cluster = (IF c.group THEN CompOf(c, n).group ELSE "")),
     \* every configured attribute shows with the value the precedence default -> kind -> name (cluster: default -> group)
     \* yields; attributes the renderer adds on its own account (a label, a tooltip) are not judged
     Cl("C19.ClusterAttrs", ok /\ clOn,
        \A i \in DOMAIN c.clusters :
           (({p \in AsSet(c.conf.cluster.default) : p[1] \notin Keys(OverOf(c.conf.cluster, c.clusters[i].label))}
              \cup AsSet(OverOf(c.conf.cluster, c.clusters[i].label))) \cup {<<"label", c.clusters[i].label>>})
             \subseteq AsSet(c.clusters[i].attrs)),
     Cl("C19.Precedence", ok,
        \A n \in N \cap rn :
           LET got == AsSet(NodeOf(c, n).attrs) exp == ExpAttrs(c, n) IN
           IF c.heat THEN {p \in exp : p[1] \notin HeatKeys} \subseteq got
           ELSE exp \subseteq got),
     Cl("C19.EdgeAttrs", ok, \A i \in DOMAIN c.edges : AsSet(c.conf.edge) \subseteq AsSet(c.edges[i][3])),
     Cl("C19.ConfigUnchanged", TRUE, c.conf0 = c.conf1),
     Cl("C19.HeatLabel", ok /\ c.heat,
        \A n \in N \cap rn : NodeOf(c, n).hasval /\ Shown(NodeOf(c, n).val, LossOf(c, n))),
     \* colours are ordered as the losses: along the cold -> warm axis of the scale the legend shows
     Cl("C19.HeatOrder", ok /\ c.heat /\ c.hasscale,
        \A n, m \in N \cap rn : LeqFr(LossOf(c, n), LossOf(c, m)) => Along(c, NodeOf(c, n).rgb) <= Along(c, NodeOf(c, m).rgb)),
     \* the largest loss fully warm, zero loss fully cold (the two ends of that scale)
     Cl("C19.HeatExtremes", ok /\ c.heat /\ c.hasscale,
        \A n \in N \cap rn :
           /\ (posMax /\ maxL(n)) => NodeOf(c, n).rgb = c.warm
           /\ DIsZero(DJ(LossOf(c, n).num)) => NodeOf(c, n).rgb = c.cold),
     Cl("C19.Legend", ok /\ c.heat /\ c.legendnode # "",
        \E n \in N : maxL(n) /\ c.haslegend /\ Shown(c.legend, LossOf(c, n)))
  >>

AllClauseNames == {"C19.Renders", "C19.Nodes", "C19.Edges", "C19.Clusters", "C19.ClusterAttrs", "C19.Precedence",
                   "C19.EdgeAttrs", "C19.ConfigUnchanged", "C19.HeatLabel", "C19.HeatOrder", "C19.HeatExtremes",
                   "C19.Legend", "events"}
RECURSIVE SetToSeq(_)
SetToSeq(X) == IF X = {} THEN <<>> ELSE LET x == CHOOSE x \in X : TRUE IN <<x>> \o SetToSeq(X \ {x})
TInit == ci = 1 /\ verd = <<>> /\ stat = [c \in AllClauseNames |-> 0]
Step2(c, cls, bad) ==
  /\ verd' = verd \o SetToSeq({[tid |-> c.id, k |-> 1, clause |-> cls[i][1], op |-> (IF c.heat THEN "make_hdiag" ELSE "make_diag"), phase |-> ""] : i \in bad})
  /\ stat' = [nm \in AllClauseNames |-> stat[nm] + (IF nm = "events" THEN 1
                 ELSE Cardinality({i \in DOMAIN cls : cls[i][1] = nm /\ cls[i][2]}))]
  /\ ci' = ci + 1
Step1(c, cls) == Step2(c, cls, {i \in DOMAIN cls : cls[i][2] /\ ~cls[i][3]})
Step == ci <= Len(Batch) /\ Step1(Batch[ci], CaseClauses(Batch[ci]))
TSpec == TInit /\ [][Step]_tvars
Finished == ci > Len(Batch) => JsonSerialize(IOEnv.OUT_FILE, [verd |-> verd, stat |-> stat])
=============================================================================
