------------------------------ MODULE TraceEdit ------------------------------
(***************************************************************************)
(* Trace validation of recorded System call histories against SysTree.      *)
(*                                                                          *)
(* Input : IOEnv.TRACE_FILE  = JSON array of traces, a trace is             *)
(*           [tid, origin, events], an event is                             *)
(*           [op, args, outcome, after = [same] | [same, st], rep0?, rep1?]  *)
(* Output: IOEnv.OUT_FILE    = JSON [verd, stat]; verd lists every clause   *)
(*         that failed with trace id, event index and the owning property,  *)
(*         stat counts the non-vacuous evaluations of every clause.         *)
(* Validation is total: a failing clause never stops the run; the state is  *)
(* re-synchronised to the logged one and the rest of the trace is checked.  *)
(* Events marked from0 were applied to a copy of the state at the last      *)
(* "mark" event (branching replay of all outgoing transitions of a state).  *)
(***************************************************************************)
EXTENDS SysTree, Json, IOUtils

Batch == JsonDeserialize(IOEnv.TRACE_FILE)

VARIABLES ti,     \* index of the current trace in the batch
          k,      \* index of the next event of that trace
          sys,    \* abstract state after the events consumed so far
          base,   \* abstract state after the first event of the current trace
          verd,   \* failed clauses so far
          stat    \* clause name -> number of non-vacuous evaluations
vars == <<ti, k, sys, base, verd, stat>>

StateOfJ(j) ==
  LET cs    == j.comps
      N     == {cs[i].name : i \in DOMAIN cs}
      At(n) == cs[CHOOSE i \in DOMAIN cs : cs[i].name = n]
  IN [comps |-> [n \in N |-> [cls |-> At(n).cls, pay |-> At(n).pay,
                              rail |-> At(n).rail, group |-> At(n).group]],
      par   |-> [n \in N |-> At(n).par],
      pconf |-> [n \in N |-> At(n).pconf],
      sysph |-> j.sysph,
      anom  |-> j.anom]

Same4(A, B)     == A.comps = B.comps /\ A.par = B.par /\ A.pconf = B.pconf /\ A.sysph = B.sysph
SameState(A, B) == Same4(A, B) /\ A.anom = B.anom
NameAnoms(S)    == {i \in DOMAIN S.anom : S.anom[i][1] = "name"}
AuxAnoms(S)     == {i \in DOMAIN S.anom : S.anom[i][1] # "name"}
ParentAnoms(S)  == {i \in DOMAIN S.anom : S.anom[i][1] = "pnames"}
PreOK(S)        == WellFormed(S) /\ NameAnoms(S) = {}

\* a clause: name, applicable?, holds?   (cond is only evaluated when applicable)
Cl(name, app, cond) == <<name, app, IF app THEN cond ELSE TRUE>>

\* (mod: the call is inside the model - a mux declared over a list that names one component twice leaves such a list
\*  behind by construction; that input class is outside the model and its reference list is not judged)
WFClausesM(app, post, mod) ==
  << Cl("C14.WF.NameRegistry",       app, NameAnoms(post) = {} /\ WFTotal(post)),
     Cl("C14.WF.UniqueRails",        app, WFUniqueRails(post)),
     Cl("C14.WF.NamesRailsDisjoint", app, WFNamesRailsDisjoint(post)),
     Cl("C14.WF.RootsAreSources",    app, WFRootsAreSources(post)),
     Cl("C14.WF.LoadLeaf",           app, WFLoadLeaf(post)),
     Cl("C14.WF.OnlyMuxMultiParent", app, WFOnlyMuxMultiParent(post)),
     Cl("C14.WF.OneMux",             app, WFOneMux(post)),
     Cl("C14.WF.LinkAcceptable",     app, WFLinkAcceptable(post) /\ WFAcyclic(post)),
     \* the ordered parent references (from which the library derives every component's parents) name exactly
     \* the components the graph links it to: a reference to a name that does not exist is a link add_comp refuses
     Cl("C14.WF.ParentRefs",         app /\ mod, ParentAnoms(post) = {}) >>
WFClauses(app, post) == WFClausesM(app, post, TRUE)

\* (operator parameters are evaluated once by TLC, LET definitions at every reference)
EditClauses3(pre, ev, post, exc, preok, mod, acc) ==
  << Cl("C15.Unchanged.State",   exc, SameState(post, pre)),
     Cl("C15.Unchanged.Reports", exc /\ "rep0" \in DOMAIN ev, ev.rep0 = ev.rep1),
     Cl("C16.Structure",         mod /\ ~exc /\ acc, Same4(post, OpEff(pre, ev.op, ev.args))),
     Cl("C16.NoAuxAnomaly",      mod /\ ~exc /\ acc /\ AuxAnoms(pre) = {}, AuxAnoms(post) = {}),
     Cl("note.UnexpectedAccept", mod /\ ~exc, acc),
     Cl("note.OverStrict",       mod /\ exc, ~acc),
     Cl("note.Unmodelled",       TRUE, mod) >>
  \o WFClausesM(preok, post, mod)
EditClauses2(pre, ev, post, exc, preok, mod) ==
  EditClauses3(pre, ev, post, exc, preok, mod, IF mod THEN OpOK(pre, ev.op, ev.args) ELSE FALSE)
EditClauses1(pre, ev, post, exc, preok) ==
  EditClauses2(pre, ev, post, exc, preok,
               preok /\ "unmodelled" \notin DOMAIN ev /\ OpModelled(pre, ev.op, ev.args))
EditClauses(pre, ev, post) == EditClauses1(pre, ev, post, ev.outcome = "exc", PreOK(pre))

FirstClauses(ev, post) ==
  << Cl("C16.Structure", ev.op = "new" /\ KindOf(ev.args.comp.cls) = "SOURCE",
        Same4(post, NewSystem(ev.args))) >>
  \o WFClauses(TRUE, post)

AnalysisClauses(pre, ev, post) ==
  << Cl("C17.StateUnchanged", TRUE, SameState(post, pre)),
     Cl("C17.DeepUnchanged", "deep0" \in DOMAIN ev, ev.deep0 = ev.deep1),
     Cl("C17.ArgsUnchanged", "args0" \in DOMAIN ev, ev.args0 = ev.args1) >>

ClausesOf(pre, ev, post) ==
  IF ev.op = "mark" THEN <<>>
  ELSE IF ev.op \in {"init", "new", "from_file"} THEN FirstClauses(ev, post)
  ELSE IF ev.op \in EditOps THEN EditClauses(pre, ev, post)
  ELSE AnalysisClauses(pre, ev, post)

AllClauseNames ==
  {"C14.WF.NameRegistry", "C14.WF.UniqueRails", "C14.WF.NamesRailsDisjoint",
   "C14.WF.RootsAreSources", "C14.WF.LoadLeaf", "C14.WF.OnlyMuxMultiParent", "C14.WF.OneMux",
   "C14.WF.LinkAcceptable", "C14.WF.ParentRefs", "C15.Unchanged.State", "C15.Unchanged.Reports", "C16.Structure",
   "C16.NoAuxAnomaly", "C17.StateUnchanged", "C17.DeepUnchanged", "C17.ArgsUnchanged", "note.UnexpectedAccept", "note.OverStrict",
   "note.Unmodelled", "events", "rejected", "accepted"}

Init == /\ ti = 1 /\ k = 1
        /\ sys = [comps |-> <<>>, par |-> <<>>, pconf |-> <<>>, sysph |-> <<>>, anom |-> <<>>]
        /\ base = sys
        /\ verd = <<>>
        /\ stat = [c \in AllClauseNames |-> 0]

Step3(tr, ev, post, cls, bad) ==
  /\ sys' = post
  /\ base' = IF k = 1 \/ ev.op = "mark" THEN post ELSE base
  /\ verd' = verd \o [j \in 1..Cardinality(bad) |->
                LET i == CHOOSE x \in bad : Cardinality({y \in bad : y < x}) = j - 1
                IN [tid |-> tr.tid, k |-> k, clause |-> cls[i][1], op |-> ev.op]]
  /\ stat' = [c \in AllClauseNames |->
                stat[c] + (IF c = "events" THEN 1
                           ELSE IF c = "rejected" THEN (IF ev.op \in EditOps /\ ev.outcome = "exc" THEN 1 ELSE 0)
                           ELSE IF c = "accepted" THEN (IF ev.op \in EditOps /\ ev.outcome = "ok" THEN 1 ELSE 0)
                           ELSE IF \E i \in DOMAIN cls : cls[i][1] = c /\ cls[i][2] THEN 1 ELSE 0)]
  /\ IF k < Len(tr.events) THEN k' = k + 1 /\ ti' = ti
                           ELSE k' = 1 /\ ti' = ti + 1
Step2(tr, ev, post, cls) == Step3(tr, ev, post, cls, {i \in DOMAIN cls : cls[i][2] /\ ~cls[i][3]})
\* an event marked from0 was applied to a copy of the state after the first event (branching replay)
Step1(tr, ev, pre, post) == Step2(tr, ev, post, ClausesOf(pre, ev, post))
Step0(tr, ev, pre)       == Step1(tr, ev, pre, IF ev.after.same THEN pre ELSE StateOfJ(ev.after.st))
Step == ti <= Len(Batch) /\ Step0(Batch[ti], Batch[ti].events[k],
                                   IF "from0" \in DOMAIN Batch[ti].events[k] THEN base ELSE sys)

Next == Step
Spec == Init /\ [][Next]_vars

\* written once, in the state in which the whole batch has been consumed
Finished == ti > Len(Batch) => JsonSerialize(IOEnv.OUT_FILE, [verd |-> verd, stat |-> stat])
=============================================================================
