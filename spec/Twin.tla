-------------------------------- MODULE Twin --------------------------------
(***************************************************************************)
(* Equality of two reports of what must be the same abstract system:        *)
(* a saved-and-reloaded system against the original (C12), a history-built  *)
(* system against a system built from scratch (C16), a second call against  *)
(* the first (C17), a table of equal entries against the constant (C10).    *)
(* Tables are compared as SETS of rows keyed by (Component, Phase, Rail):   *)
(* row order and node numbering are not part of the abstract state.         *)
(* Numeric cells: exact = identical; otherwise exact class 1e-9 relative    *)
(* (float summation order may differ between construction orders).          *)
(* Non-numeric reports are compared through canonical digests.              *)
(* A case: [id, clause, kind = "table" | "digest" | "state", exact, a, b]    *)
(***************************************************************************)
EXTENDS Dec, FiniteSets, TLC, Json, IOUtils

Batch == JsonDeserialize(IOEnv.TRACE_FILE)
VARIABLES ci, verd, stat
vars == <<ci, verd, stat>>
Cl(name, app, cond) == <<name, app, IF app THEN cond ELSE TRUE>>

NumKeys == {"vin", "vout", "iin", "iout", "pwr", "loss", "eff", "trise", "tpeak", "energy", "volt", "curr"}
\* the Warnings text is compared through its token set (wtok): the order in which rail_rep joins the
\* texts of several components is not part of the statement
StrKeys == {"comp", "type", "parent", "railin", "domain", "group", "phase", "railout", "rail"}
SeqRange(s) == {s[i] : i \in DOMAIN s}

\* efficiency = 100 * (P - L) / P is formed with cancellation: an absolute 1e-9 (percent) is added
CellEq(x, y, exact, abst) ==
  IF ~IsNum(x) \/ ~IsNum(y) THEN x[1] = y[1]
  ELSE IF exact THEN DEq(DJ(x), DJ(y))
  ELSE DLeq(DAbs(DJ(x) \ominus DJ(y)), (DE(1, -9) \otimes (DAbs(DJ(x)) \oplus DAbs(DJ(y)))) \oplus abst)
RowEq(r, s, exact) ==
  /\ \A k \in StrKeys : r[k] = s[k]
  /\ SeqRange(r.wtok) = SeqRange(s.wtok)
  /\ \A k \in NumKeys : CellEq(r[k], s[k], exact, IF k = "eff" THEN DE(1, -9) ELSE DE(1, -15))
Key(r) == <<r.comp, r.phase, r.rail>>

TableEq(TA, TB, exact) ==
  /\ TA.isnone = TB.isnone
  /\ SeqRange(TA.cols) = SeqRange(TB.cols)
  /\ Len(TA.rows) = Len(TB.rows)
  /\ \A i \in DOMAIN TA.rows :
        LET J == {j \in DOMAIN TB.rows : Key(TB.rows[j]) = Key(TA.rows[i])} IN
        /\ Cardinality(J) = 1
        /\ Cardinality({j \in DOMAIN TA.rows : Key(TA.rows[j]) = Key(TA.rows[i])}) = 1
        /\ RowEq(TA.rows[i], TB.rows[CHOOSE j \in J : TRUE], exact)

\* version gate of System.from_file (C12): a = version in the file, b = installed version, both
\* <<major, minor, patch>>; c.outcome / c.exc = what from_file did
Newer(x, y) == \/ x[1] > y[1]
               \/ (x[1] = y[1] /\ x[2] > y[2])
               \/ (x[1] = y[1] /\ x[2] = y[2] /\ x[3] > y[3])
\* a newer file is refused with ValueError; a file of the installed version loads (that is the round trip); what happens
\* to a file of an OLDER version the statement leaves open (a library may drop support for an old format)
VersionOK(c) == IF Newer(c.a, c.b) THEN c.outcome = "exc" /\ c.exc = "ValueError"
                ELSE IF c.a = c.b THEN c.outcome = "ok"
                ELSE c.outcome = "ok" \/ c.exc = "ValueError"

CaseClauses(c) ==
  << Cl(c.clause, TRUE,
        IF c.kind = "table" THEN TableEq(c.a, c.b, c.exact)
        ELSE IF c.kind = "version" THEN VersionOK(c)
        ELSE c.a = c.b) >>

RECURSIVE SetToSeq(_)
SetToSeq(X) == IF X = {} THEN <<>> ELSE LET x == CHOOSE x \in X : TRUE IN <<x>> \o SetToSeq(X \ {x})
Init == ci = 1 /\ verd = <<>> /\ stat = <<>>
Step2(c, cls, bad) ==
  /\ verd' = verd \o SetToSeq({[tid |-> c.id, k |-> 1, clause |-> cls[i][1], op |-> c.what, phase |-> ""] : i \in bad})
  /\ stat' = Append(stat, c.clause)
  /\ ci' = ci + 1
Step1(c, cls) == Step2(c, cls, {i \in DOMAIN cls : cls[i][2] /\ ~cls[i][3]})
Step == ci <= Len(Batch) /\ Step1(Batch[ci], CaseClauses(Batch[ci]))
Next == Step
Spec == Init /\ [][Next]_vars
\* stat is written as the list of evaluated clause names; the harness counts them
Finished == ci > Len(Batch) => JsonSerialize(IOEnv.OUT_FILE, [verd |-> verd, statlist |-> stat])
=============================================================================
