----------------------------- MODULE TraceSolver -----------------------------
(***************************************************************************)
(* Validation of sweep-level traces of the solver loop against Solver.tla.  *)
(* A case is one run of the loop for one phase:                             *)
(*   [id, names, args = [vtol, itol, maxiter], sweeps = <<[v0,i0,v1,i1,ok]>>,*)
(*    end = [kind = "return"|"raise", exc, iters, v, i], tv, ti]             *)
(* v0/i0 = iterate before the sweep, v1/i1 = result of the sweep (vectors   *)
(* aligned with names), tv/ti = Vout / Iin columns of the table that        *)
(* solve() finally returned (has_table = FALSE when the call raised).        *)
(***************************************************************************)
EXTENDS Dec, FiniteSets, TLC, Json, IOUtils
Sol == INSTANCE Solver WITH MaxIterU <- {0}, pc <- "run", maxiter <- 0, k <- 0, hist <- <<>>

Batch == JsonDeserialize(IOEnv.TRACE_FILE)
VARIABLES ci, verd, stat
vars == <<ci, verd, stat>>

Cl(name, app, cond) == <<name, app, IF app THEN cond ELSE TRUE>>
Atol == DE(1, -8)
Eps  == DE(1, -12)
One  == DInt(1)

AllNum(vec) == \A j \in DOMAIN vec : IsNum(vec[j])
\* numpy.allclose(a, b, rtol) with the bound scaled by (1 + m * 1e-12), m = -1 strict, +1 loose
Close(a, b, rtol, m) ==
  \A j \in DOMAIN a :
     LET x == DJ(a[j]) y == DJ(b[j])
         bound == Atol \oplus (rtol \otimes DAbs(y))
     IN DLeq(DAbs(x \ominus y), bound \otimes (One \oplus (DInt(m) \otimes Eps)))
Conv(sw, A, m) == Close(sw.v0, sw.v1, DJ(A.vtol), m) /\ Close(sw.i0, sw.i1, DJ(A.itol), m)

\* outcome classes of a sweep that are compatible with the recorded numbers
Outcomes(sw, A) ==
  IF ~sw.ok THEN {"unstable"}
  ELSE (IF Conv(sw, A, 1) THEN {"conv"} ELSE {}) \cup (IF ~Conv(sw, A, -1) THEN {"not"} ELSE {})

\* is there a choice of outcomes under which the abstract machine performs exactly these sweeps and ends in
\* control state `final` ?  Only the outcome "not" lets the machine go on, so every sweep but the last must admit
\* "not" (and leave the machine running), and the last one must admit an outcome that leads to `final`.
\* (Stated without recursion: TLC evaluates a recursion of depth n over the sweeps in quadratic time, and a run
\* that does not converge has maxiter + 1 = 10 001 sweeps.)
\* A run that RETURNED may have gone on after a sweep that already met the requested tolerance (an implementation is
\* free to be stricter than asked; the statement of C03 forbids returning EARLY - an intermediate iterate - not late):
\* its earlier sweeps need only have been performed.  That they were in fact all unconverged is recorded as
\* note.C03.ReturnedAtFirstConverged (evidence, never a verdict).
Explains(sws, A, j0, final) ==
  LET n == Len(sws) IN
  /\ n >= 1
  /\ \A j \in 1..(n - 1) :
        /\ sws[j].ok
        /\ final # "returned" => ("not" \in Outcomes(sws[j], A) /\ Sol!PcStep(j - 1, "not", A.maxiter) = "run")
  /\ \E o \in Outcomes(sws[n], A) : Sol!PcStep(n - 1, o, A.maxiter) = final
AtFirstConverged(sws, A) == \A j \in 1..(Len(sws) - 1) : "not" \in Outcomes(sws[j], A)

Final(c) == IF c.end.kind = "return" THEN "returned"
            ELSE IF c.end.exc = "RuntimeError" THEN "noconv"
            ELSE IF c.end.exc = "ValueError" THEN "unstable" ELSE "other"

CaseClauses(c) ==
  LET sws == c.sweeps
      A   == c.args
      n   == Len(sws)
      fin == \A j \in DOMAIN sws : AllNum(sws[j].v0) /\ AllNum(sws[j].i0)
                                   /\ (sws[j].ok => AllNum(sws[j].v1) /\ AllNum(sws[j].i1))
      last == sws[n]
  IN
  << Cl("C03.NoNaN", TRUE, fin),
     Cl("C03.ExcClass", c.end.kind = "raise", c.end.exc \in {"RuntimeError", "ValueError"}),
     Cl("C03.Terminates", TRUE, n <= A.maxiter + 1 /\ n >= 1),
     \* the recorded sweeps, classified by the exact stopping rule, are a behaviour of Solver.tla
     \* ending in the observed way: not earlier, not an intermediate iterate; a RuntimeError only when no sweep within
     \* maxiter met the requested tolerance
     Cl("C03.Sweep.Machine", fin /\ n >= 1 /\ Final(c) # "other", Explains(sws, A, 1, Final(c))),
     Cl("note.C03.ReturnedAtFirstConverged", fin /\ n >= 1 /\ Final(c) = "returned", AtFirstConverged(sws, A)),
     Cl("C03.Sweep.Chain", fin,
        \A j \in 1..(n - 1) : sws[j + 1].v0 = sws[j].v1 /\ sws[j + 1].i0 = sws[j].i1),
     \* what is handed back is an iterate of the LAST (converged) sweep - the one it started from or the one it produced -,
     \* and the table shows those very vectors
     Cl("C03.Returned.IsIterate", fin /\ c.end.kind = "return" /\ n >= 1,
        /\ c.end.v \in {last.v0, last.v1} /\ c.end.i \in {last.i0, last.i1}
        /\ c.has_table => (c.tv = c.end.v /\ c.ti = c.end.i)),
     Cl("C03.MaxIter", c.end.kind = "return", n <= A.maxiter)
  >>

AllClauseNames == {"C03.NoNaN", "C03.ExcClass", "C03.Terminates", "C03.Sweep.Machine", "C03.Sweep.Chain",
                   "C03.Returned.IsIterate", "C03.MaxIter", "note.C03.ReturnedAtFirstConverged", "events"}

RECURSIVE SetToSeq(_)
SetToSeq(X) == IF X = {} THEN <<>> ELSE LET x == CHOOSE x \in X : TRUE IN <<x>> \o SetToSeq(X \ {x})

Init == ci = 1 /\ verd = <<>> /\ stat = [c \in AllClauseNames |-> 0]
Step2(c, cls, bad) ==
  /\ verd' = verd \o SetToSeq({[tid |-> c.id, k |-> 1, clause |-> cls[i][1], op |-> c.phase, phase |-> c.phase] : i \in bad})
  /\ stat' = [nm \in AllClauseNames |-> stat[nm] + (IF nm = "events" THEN 1
                 ELSE Cardinality({i \in DOMAIN cls : cls[i][1] = nm /\ cls[i][2]}))]
  /\ ci' = ci + 1
Step1(c, cls) == Step2(c, cls, {i \in DOMAIN cls : cls[i][2] /\ ~cls[i][3]})
Step == ci <= Len(Batch) /\ Step1(Batch[ci], CaseClauses(Batch[ci]))
Next == Step
Spec == Init /\ [][Next]_vars
Finished == ci > Len(Batch) => JsonSerialize(IOEnv.OUT_FILE, [verd |-> verd, stat |-> stat])
=============================================================================
