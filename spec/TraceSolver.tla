----------------------------- MODULE TraceSolver -----------------------------
(***************************************************************************)
(* Validation of sweep-level traces of the solver loop against Solver.tla.  *)
(* A case is one run of the loop for one phase:                             *)
(*   [id, names, args = [vtol, itol, maxiter], sweeps = <<[v0,i0,v1,i1,ok]>>,*)
(*    end = [kind = "return"|"raise", exc, iters, v, i], tv, ti]             *)
(* v0/i0 = iterate before the sweep, v1/i1 = result of the sweep (vectors   *)
(* aligned with names), tv/ti = Vout / Iin columns of the table that        *)
(* solve() finally returned (has_table = FALSE when the call raised).        *)
(***************************************************************************)
EXTENDS Dec, FiniteSets, TLC, Json, IOUtils
Sol == INSTANCE Solver WITH MaxIterU <- {0}, pc <- "run", maxiter <- 0, k <- 0, hist <- <<>>

Batch == JsonDeserialize(IOEnv.TRACE_FILE)
VARIABLES ci, verd, stat
vars == <<ci, verd, stat>>

Cl(name, app, cond) == <<name, app, IF app THEN cond ELSE TRUE>>
Atol == DE(1, -8)
Eps  == DE(1, -12)
One  == DInt(1)

AllNum(vec) == \A j \in DOMAIN vec : IsNum(vec[j])
\* numpy.allclose(a, b, rtol) with the bound scaled by (1 + m * 1e-12), m = -1 strict, +1 loose
Close(a, b, rtol, m) ==
  \A j \in DOMAIN a :
     LET x == DJ(a[j]) y == DJ(b[j])
         bound == Atol \oplus (rtol \otimes DAbs(y))
     IN DLeq(DAbs(x \ominus y), bound \otimes (One \oplus (DInt(m) \otimes Eps)))
Conv(sw, A, m) == Close(sw.v0, sw.v1, DJ(A.vtol), m) /\ Close(sw.i0, sw.i1, DJ(A.itol), m)

\* outcome classes of a sweep that are compatible with the recorded numbers
Outcomes(sw, A) ==
  IF ~sw.ok THEN {"unstable"}
  ELSE (IF Conv(sw, A, 1) THEN {"conv"} ELSE {}) \cup (IF ~Conv(sw, A, -1) THEN {"not"} ELSE {})

\* Is the recorded run a behaviour of Solver.tla ending in control state `final`?  The classification of a sweep by the
\* exact stopping rule (numpy.allclose with the REQUESTED tolerances) decides what may be handed back:
\*   returned : the last sweep meets the requested tolerance (never an earlier, intermediate iterate) within the sweep
\*              budget (maxiter sweeps and the one further sweep of the loop guard), every earlier sweep was performed.  An implementation is free to be stricter than asked and
\*              go on after a sweep that already met the tolerance: that the code returns at the FIRST such sweep is
\*              recorded as note.C03.ReturnedAtFirstConverged, not judged.
\*   noconv   : the budget was used up: maxiter sweeps, or the one further sweep the loop guard `iters <= maxiter` performs
\*              (DESIGN 9.2).  Whether it should have returned instead is judged across runs (C03.MaxIter.Enough): the
\*              run with an unlimited budget shows how many sweeps the implementation's own criterion needs.
\*   unstable : the sweep that raised is the last one.
\* (Stated without recursion: TLC evaluates a recursion of depth n over the sweeps in quadratic time, and a run
\* that does not converge has maxiter + 1 = 10 001 sweeps.)
Explains(sws, A, j0, final) ==
  LET n == Len(sws) IN
  /\ \A j \in 1..(n - 1) : sws[j].ok
  /\ IF final = "returned" THEN n >= 1 /\ n <= A.maxiter + 1 /\ "conv" \in Outcomes(sws[n], A)
     ELSE IF final = "noconv" THEN n \in {A.maxiter, A.maxiter + 1} /\ (n >= 1 => sws[n].ok)
     ELSE n >= 1 /\ ~sws[n].ok /\ n <= A.maxiter + 1
AtFirstConverged(sws, A) == \A j \in 1..(Len(sws) - 1) : "not" \in Outcomes(sws[j], A)

Final(c) == IF c.end.kind = "return" THEN "returned"
            ELSE IF c.end.exc = "RuntimeError" THEN "noconv"
            ELSE IF c.end.exc = "ValueError" THEN "unstable" ELSE "other"

CaseClauses(c) ==
  LET sws == c.sweeps
      A   == c.args
      n   == Len(sws)
      fin == \A j \in DOMAIN sws : AllNum(sws[j].v0) /\ AllNum(sws[j].i0)
                                   /\ (sws[j].ok => AllNum(sws[j].v1) /\ AllNum(sws[j].i1))
      last == sws[IF n >= 1 THEN n ELSE 1]
  IN
  << Cl("C03.NoNaN", TRUE, fin),
     Cl("C03.ExcClass", c.end.kind = "raise", c.end.exc \in {"RuntimeError", "ValueError"}),
     Cl("C03.Terminates", TRUE, n <= A.maxiter + 1),
     \* the recorded sweeps, classified by the exact stopping rule, are a behaviour of Solver.tla
     \* ending in the observed way: not earlier, not an intermediate iterate; a RuntimeError only when no sweep within
     \* maxiter met the requested tolerance
     Cl("C03.Sweep.Machine", fin /\ Final(c) # "other", Explains(sws, A, 1, Final(c))),
     \* a budget that suffices suffices: when the same call with an unlimited budget returned after nref sweeps, a budget of
     \* more than nref sweeps must return as well (one sweep of slack for the meaning of "within maxiter")
     Cl("C03.MaxIter.Enough", c.has_nref /\ A.maxiter > c.nref, Final(c) # "noconv"),
     Cl("note.C03.ReturnedAtFirstConverged", fin /\ n >= 1 /\ Final(c) = "returned", AtFirstConverged(sws, A)),
     \* (the hand-over of an undamped Jacobi iteration: how the code iterates today - a note, not part of the statement)
     Cl("note.C03.Sweep.Chain", fin,
        \A j \in 1..(n - 1) : sws[j + 1].v0 = sws[j].v1 /\ sws[j + 1].i0 = sws[j].i1),
     \* what is handed back is an iterate of the LAST (converged) sweep - the one it started from or the one it produced -,
     \* and the table shows those very vectors
     Cl("C03.Returned.IsIterate", fin /\ c.end.kind = "return" /\ n >= 1,
        /\ c.end.v \in {last.v0, last.v1} /\ c.end.i \in {last.i0, last.i1}
        /\ c.has_table => (c.tv = c.end.v /\ c.ti = c.end.i)),
     \* (the budget: maxiter sweeps, plus the one further sweep the loop guard allows - DESIGN 9.2 - whether it ends in a
     \*  RuntimeError or confirms a convergence)
     Cl("C03.MaxIter", c.end.kind = "return", n <= A.maxiter + 1)
  >>

AllClauseNames == {"C03.NoNaN", "C03.ExcClass", "C03.Terminates", "C03.Sweep.Machine", "note.C03.Sweep.Chain",
                   "C03.Returned.IsIterate", "C03.MaxIter", "C03.MaxIter.Enough", "note.C03.ReturnedAtFirstConverged", "events"}

RECURSIVE SetToSeq(_)
SetToSeq(X) == IF X = {} THEN <<>> ELSE LET x == CHOOSE x \in X : TRUE IN <<x>> \o SetToSeq(X \ {x})

Init == ci = 1 /\ verd = <<>> /\ stat = [c \in AllClauseNames |-> 0]
Step2(c, cls, bad) ==
  /\ verd' = verd \o SetToSeq({[tid |-> c.id, k |-> 1, clause |-> cls[i][1], op |-> c.phase, phase |-> c.phase] : i \in bad})
  /\ stat' = [nm \in AllClauseNames |-> stat[nm] + (IF nm = "events" THEN 1
                 ELSE Cardinality({i \in DOMAIN cls : cls[i][1] = nm /\ cls[i][2]}))]
  /\ ci' = ci + 1
Step1(c, cls) == Step2(c, cls, {i \in DOMAIN cls : cls[i][2] /\ ~cls[i][3]})
Step == ci <= Len(Batch) /\ Step1(Batch[ci], CaseClauses(Batch[ci]))
Next == Step
Spec == Init /\ [][Next]_vars
Finished == ci > Len(Batch) => JsonSerialize(IOEnv.OUT_FILE, [verd |-> verd, stat |-> stat])
=============================================================================
