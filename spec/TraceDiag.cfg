SPECIFICATION TSpec
INVARIANT Finished
CHECK_DEADLOCK FALSE
