------------------------------- MODULE Interp -------------------------------
(***************************************************************************)
(* Semantics of a component parameter that is a constant, a 1-D table       *)
(* f(io) or a 2-D table f(io, vi), as a RELATION: the set of admissible     *)
(* values at a query point, each value an exact fraction <<num, den>> with  *)
(* den > 0.                                                                 *)
(*   - exact on grid points, linear along grid lines,                       *)
(*   - inside a 2-D cell: linear on either triangulation of the cell (the   *)
(*     library uses a Delaunay triangulation whose diagonal is not          *)
(*     specified), always within the range of the four corner values,       *)
(*   - outside the table: the query is clamped to the nearest edge,         *)
(*   - the sign of the query and of the tabulated numbers is ignored.       *)
(* A tagged parameter is [k |-> "c", v] | [k |-> "t1"|"t2", vi, io, f]      *)
(* (numbers in wire form).                                                  *)
(***************************************************************************)
EXTENDS Dec, FiniteSets

One == DInt(1)
Fr(n, d) == <<n, d>>

AbsJ(j) == DAbs(DJ(j))

\* clamp x into [lo, hi]
Clamp(x, lo, hi) == IF DLt(x, lo) THEN lo ELSE IF DLt(hi, x) THEN hi ELSE x

\* index i in 1..Len(xs)-1 of a segment [xs[i], xs[i+1]] containing x (xs increasing, x inside)
Seg(xs, x) == CHOOSE i \in 1..(Len(xs) - 1) : DLeq(xs[i], x) /\ DLeq(x, xs[i + 1])

\* 1-D: value at x on the polyline (xs, fs); Len(xs) >= 1
Lin1(xs, fs, x0) ==
  IF Len(xs) = 1 THEN Fr(fs[1], One)
  ELSE LET x == Clamp(x0, xs[1], xs[Len(xs)])
           i == Seg(xs, x)
           dx == xs[i + 1] \ominus xs[i]
       IN Fr((fs[i] \otimes (xs[i + 1] \ominus x)) \oplus (fs[i + 1] \otimes (x \ominus xs[i])), dx)

AbsSeq(js) == [i \in DOMAIN js |-> AbsJ(js[i])]

\* 2-D: the two piecewise-linear interpolants of one cell
Cell2(x0, x1, y0, y1, f00, f10, f01, f11, x, y) ==
  LET dx == x1 \ominus x0
      dy == y1 \ominus y0
      a  == x \ominus x0
      b  == y \ominus y0
      den == dx \otimes dy
      ady == a \otimes dy          \* u * den
      bdx == b \otimes dx          \* v * den
      base == f00 \otimes den
      \* diagonal (x0,y0)-(x1,y1)
      A == IF DLeq(bdx, ady)
           THEN base \oplus (ady \otimes (f10 \ominus f00)) \oplus (bdx \otimes (f11 \ominus f10))
           ELSE base \oplus (ady \otimes (f11 \ominus f01)) \oplus (bdx \otimes (f01 \ominus f00))
      \* diagonal (x0,y1)-(x1,y0)
      Bv == IF DLeq(ady \oplus bdx, den)
            THEN base \oplus (ady \otimes (f10 \ominus f00)) \oplus (bdx \otimes (f01 \ominus f00))
            ELSE (f11 \otimes den) \oplus ((den \ominus ady) \otimes (f01 \ominus f11))
                                   \oplus ((den \ominus bdx) \otimes (f10 \ominus f11))
  IN {Fr(A, den), Fr(Bv, den)}

Lin2(xs, ys, f, x0, y0) ==
  LET x == Clamp(x0, xs[1], xs[Len(xs)])
      y == Clamp(y0, ys[1], ys[Len(ys)])
  IN IF Len(ys) = 1 THEN {Lin1(xs, f[1], x)}
     ELSE IF Len(xs) = 1 THEN {Lin1(ys, [i \in DOMAIN ys |-> f[i][1]], y)}
     ELSE LET j == Seg(xs, x)
              i == Seg(ys, y)
          IN Cell2(xs[j], xs[j + 1], ys[i], ys[i + 1],
                   f[i][j], f[i][j + 1], f[i + 1][j], f[i + 1][j + 1], x, y)

\* The rows of a 2-D table may be given in any order of vi (the library treats the table as a scatter of
\* points): SortIdx(ys)[k] is the index of the k-th smallest entry of ys (entries distinct).
SortIdx(ys) == [k \in DOMAIN ys |-> CHOOSE i \in DOMAIN ys : Cardinality({j \in DOMAIN ys : DLt(ys[j], ys[i])}) = k - 1]

\* admissible values of tagged parameter p at (|io|, |vi|)
ParamVals2(xs, ys, f, ord, io, vi) ==
  Lin2(xs, [k \in DOMAIN ys |-> ys[ord[k]]], [k \in DOMAIN ys |-> AbsSeq(f[ord[k]])], io, vi)
ParamVals(p, io, vi) ==
  IF p.k = "c" THEN {Fr(AbsJ(p.v), One)}
  ELSE IF p.k = "t1" THEN {Lin1(AbsSeq(p.io), AbsSeq(p.f[1]), DAbs(io))}
  ELSE ParamVals2(AbsSeq(p.io), AbsSeq(p.vi), p.f, SortIdx(AbsSeq(p.vi)), DAbs(io), DAbs(vi))

\* well-conditioned table: strictly increasing io axis, strictly increasing vi axis
RECURSIVE Increasing(_)
Increasing(s) == Len(s) <= 1 \/ (DLt(s[1], s[2]) /\ Increasing(Tail(s)))
Distinct(s) == \A i, j \in DOMAIN s : DEq(s[i], s[j]) => i = j
TableOK(p) == p.k = "c" \/ (p.k \in {"t1", "t2"} /\ Increasing(AbsSeq(p.io)) /\ Distinct(AbsSeq(p.vi)))

\* range of the corner values of the enclosing cell (for the C10 range clause)
FrLeq(a, b) == DLeq(a[1] \otimes b[2], b[1] \otimes a[2])     \* a <= b for positive denominators
=============================================================================
