------------------------------- MODULE MCImpl -------------------------------
(***************************************************************************)
(* Refinement check: the implementation-grain model SysImpl against the     *)
(* abstract edit specification SysTree, on the argument universes of MCEdit *)
(* (names, a rail universe that overlaps the names, references by name or   *)
(* by rail, duplicate reference lists, five structural classes).            *)
(*   Refines        every call is accepted exactly when SysTree accepts it, *)
(*                  an accepted call has exactly the abstract effect, a     *)
(*                  rejected call leaves the whole concrete state untouched *)
(*   InvConsistent  the registries describe the graph after every call      *)
(*   InvWellFormed  the abstraction of every reachable concrete state is    *)
(*                  well-formed (C14 at the implementation grain)           *)
(***************************************************************************)
EXTENDS SysImpl

CONSTANTS NameU, RailU, ClassU, PayU, GroupU, ConfU, SysPhU, MaxRefs, InitName

VARIABLES I
vars == <<I>>

RefU    == (NameU \cup RailU) \ {""}
RECURSIVE SeqsUpTo(_, _)
SeqsUpTo(U, k) == IF k = 0 THEN {<<>>}
                  ELSE LET r == SeqsUpTo(U, k - 1) IN
                       r \cup {Append(s, u) : s \in {x \in r : Len(x) = k - 1}, u \in U}
RefSeqU == SeqsUpTo(RefU, MaxRefs)

Comp(name, cls, pay) == [name |-> name, cls |-> cls, pay |-> pay]
\* the refinement condition of one call (checked on every transition TLC generates, through Assert: the call and its
\* arguments are then part of the error message)
Refines(pre, op, a, r) ==
  LET A0 == Abs(pre) IN
  IF OpOK(A0, op, a) THEN r.out = "ok" /\ Abs(r.st) = OpEff(A0, op, a)
  ELSE r.out = "exc" /\ r.st = pre
Call(op, a) ==
  /\ OpModelled(Abs(I), op, a)
  /\ LET r == ImplOp(I, op, a) IN
     /\ Assert(Refines(I, op, a, r), <<"refinement of SysTree violated by", op, a, "from", I, "giving", r>>)
     /\ I' = r.st

Init == I = NewImpl([comp |-> Comp(InitName, "Source", CHOOSE p \in PayU : TRUE), rail |-> "", group |-> ""])
Next ==
  \/ \E name \in NameU, cls \in ClassU, pay \in PayU, rail \in RailU, group \in GroupU :
        Call("add_source", [comp |-> Comp(name, cls, pay), rail |-> rail, group |-> group])
  \/ \E refs \in RefSeqU, aslist \in BOOLEAN, name \in NameU, cls \in ClassU, pay \in PayU, rail \in RailU, group \in GroupU :
        (~aslist => Len(refs) = 1) /\
        Call("add_comp", [refs |-> refs, aslist |-> aslist, comp |-> Comp(name, cls, pay), rail |-> rail, group |-> group])
  \/ \E target \in RefU, name \in NameU, cls \in ClassU, pay \in PayU, rail \in RailU, group \in GroupU :
        Call("change_comp", [target |-> target, comp |-> Comp(name, cls, pay), rail |-> rail, group |-> group])
  \/ \E target \in RefU, delchilds \in BOOLEAN : Call("del_comp", [target |-> target, delchilds |-> delchilds])
  \/ \E phases \in SysPhU : Call("set_sys_phases", [phases |-> phases])
  \/ \E ref \in RefU, conf \in ConfU : Call("set_comp_phases", [ref |-> ref, conf |-> conf])
Spec == Init /\ [][Next]_vars

InvConsistent == ImplConsistent(I)
InvWellFormed == WellFormed(Abs(I))

Ph(n)     == [name |-> n, dur |-> 1]
CfgConf1  == {[t |-> "list", v |-> <<"p">>]}
CfgSysPh1 == {<<>>}
=============================================================================
