-------------------------------- MODULE Elec --------------------------------
(***************************************************************************)
(* The electrical meaning of a system state S (as in SysTree) in one load   *)
(* phase: who is active, who supplies whom, and the documented transfer     *)
(* law of every component kind as a RELATION between the quantities of one  *)
(* row of a solved table (input voltage, output current -> output voltage,  *)
(* input current, power, loss).  Nothing here computes a steady state: a    *)
(* steady state is recognised.  Numbers are exact decimals (Dec), laws are  *)
(* division free, tabulated parameters are relations (Interp).              *)
(***************************************************************************)
EXTENDS SysTree, Interp

-----------------------------------------------------------------------------
(* Parameters of a component: tagged values, see harness/decwire.pwire       *)
Par(S, n)       == S.comps[n].pay.params
HasP(S, n, key) == key \in DOMAIN Par(S, n)
PC(S, n, key)   == DJ(Par(S, n)[key].v)              \* constant parameter, signed
PA(S, n, key)   == DAbs(PC(S, n, key))               \* its magnitude
PFlag(S, n, key) == Par(S, n)[key].v
Cls(S, n)       == S.comps[n].cls
HasTable(S, n)  == \E key \in DOMAIN Par(S, n) : Par(S, n)[key].k \in {"t1", "t2"}
IsDiode(S, n)   == Par(S, n)["type"].v = "diode"

(* Phase configuration [t |-> "none"|"list"|"map", v]                       *)
Conf(S, n)      == S.pconf[n]
HasConf(c)      == c.t \in {"list", "map"} /\ c.v # <<>>
ConfHas(c, ph)  == IF c.t = "map" THEN \E i \in DOMAIN c.v : c.v[i][1] = ph
                   ELSE IF c.t = "list" THEN \E i \in DOMAIN c.v : c.v[i] = ph
                   ELSE FALSE
MapVal(c, ph)   == DJ(c.v[CHOOSE i \in DOMAIN c.v : c.v[i][1] = ph][2])

Switchable(k)   == k \in {"SOURCE", "CONVERTER", "LINREG", "PSWITCH", "PMUX"}
\* a switchable component is active in the phases it lists (always, without a list)
Active(S, n, ph) == ~Switchable(Kind(S, n)) \/ ~HasConf(Conf(S, n)) \/ ConfHas(Conf(S, n), ph)
\* a configured component that does not list the phase reports no warnings
Unlisted(S, n, ph) == Kind(S, n) \notin {"SOURCE", "SLOSS"} /\ HasConf(Conf(S, n)) /\ ~ConfHas(Conf(S, n), ph)

\* the phase configuration has the shape its kind expects
ShapeOK(S, n) == IF Kind(S, n) = "LOAD" THEN Conf(S, n).t \in {"none", "map"}
                 ELSE Conf(S, n).t \in {"none", "list"}

-----------------------------------------------------------------------------
(* Discrete skeleton: liveness derived from the structure alone (C04)        *)
RECURSIVE OutLive(_, _, _)
OutLive(S, n, ph) ==
  IF Kind(S, n) = "SOURCE" THEN Active(S, n, ph) /\ ~DIsZero(PC(S, n, "vo"))
  ELSE IF Kind(S, n) = "LOAD" THEN FALSE
  ELSE /\ Active(S, n, ph)
       /\ \E i \in DOMAIN S.par[n] : OutLive(S, S.par[n][i], ph)
InLive(S, n, ph) == \E i \in DOMAIN S.par[n] : OutLive(S, S.par[n][i], ph)

RECURSIVE RootOf(_, _)
RootOf(S, n) == IF S.par[n] = <<>> THEN n ELSE RootOf(S, S.par[n][1])

-----------------------------------------------------------------------------
(* Tolerances.                                                              *)
(*  solver class : quantities that are successive iterates of the fixed     *)
(*                 point; K * (1e-8 + tol * |x|), tol = max(vtol, itol)     *)
(*  exact class  : quantities computed from the returned vectors;           *)
(*                 1e-9 * sum|terms| + 1e-12 * throughput                   *)
KS    == DInt(8)
Atol  == DE(1, -8)
Hund  == DInt(100)
Two   == DInt(2)

\* a = num / den within the solver tolerance (no division)
EqS(a, num, den, tol) ==
  DLeq(DAbs((a \otimes den) \ominus num),
       KS \otimes ((Atol \otimes DAbs(den)) \oplus (tol \otimes DMax(DAbs(a \otimes den), DAbs(num)))))
EqS1(a, b, tol) == EqS(a, b, One, tol)
TolS(x, tol)    == KS \otimes (Atol \oplus (tol \otimes DAbs(x)))
\* solver class for a POWER (a product V x I of two iterates): the solver's absolute term 1e-8 applies to each voltage
\* and each current, so a power may be off by 1e-8 x (the voltages + the currents involved), plus the relative part
TolP(vs, is, p, tol) == KS \otimes ((Atol \otimes (DAbs(vs) \oplus DAbs(is) \oplus One)) \oplus (tol \otimes DAbs(p)))
\* a = b within the exact class; sc = sum of |terms|, th = throughput of the row
EqX(a, b, sc, th) == DLeq(DAbs(a \ominus b), (DE(1, -9) \otimes DAbs(sc)) \oplus (DE(1, -12) \otimes DAbs(th)))

SgnD(x) == DInt(DSign(x))

-----------------------------------------------------------------------------
(* Per-phase behaviour of loads                                             *)
LoadValue(S, n, ph, key, sleepkey) ==
  LET c == Conf(S, n) IN
  IF ~HasConf(c) THEN PA(S, n, key)
  ELSE IF ConfHas(c, ph) THEN DAbs(MapVal(c, ph))
  ELSE IF sleepkey = "" THEN PA(S, n, key) ELSE PA(S, n, sleepkey)

\* on-resistance of a mux for its selected input sel (0 = none)
MuxRs(S, n, sel) ==
  LET p == Par(S, n)["rs"] IN
  IF p.k = "l" THEN (IF sel >= 1 /\ sel <= Len(p.v) THEN DAbs(DJ(p.v[sel])) ELSE DZero)
  ELSE DAbs(DJ(p.v))

-----------------------------------------------------------------------------
(* Output-voltage law: vin = input voltage of the row (for a mux: of the     *)
(* selected input), iout = output current, vout = reported output voltage.  *)
VoutLaw(S, n, ph, sel, vin, iout, vout, tol) ==
  LET k   == Kind(S, n)
      av  == DAbs(vin)
      sg  == SgnD(vin)
  IN
  IF k = "SOURCE" THEN
       IF ~Active(S, n, ph) \/ DIsZero(PC(S, n, "vo")) THEN DIsZero(vout)
       ELSE EqS1(vout, PC(S, n, "vo") \ominus (SgnD(PC(S, n, "vo")) \otimes (PA(S, n, "rs") \otimes iout)), tol)
  ELSE IF k = "LOAD" THEN DIsZero(vout)
  ELSE IF DIsZero(vin) \/ ~Active(S, n, ph) THEN DIsZero(vout)
  ELSE IF Cls(S, n) = "RLoss" THEN
       EqS1(vout, vin \ominus (sg \otimes (PA(S, n, "rs") \otimes iout)), tol)
  ELSE IF Cls(S, n) = "VLoss" THEN
       \E f \in ParamVals(Par(S, n)["vdrop"], iout, vin) :
          EqS(vout, (vin \otimes f[2]) \ominus (sg \otimes f[1]), f[2], tol)
  ELSE IF k = "CONVERTER" THEN DEq(vout, PC(S, n, "vo"))
  ELSE IF k = "LINREG" THEN
       LET head == av \ominus PA(S, n, "vdrop")
           mag  == DMin(PA(S, n, "vo"), DMax(head, DZero))
       IN  EqS1(vout, (IF PC(S, n, "vo").n THEN DNeg(mag) ELSE mag), tol)
  ELSE IF k = "PSWITCH" THEN
       EqS1(vout, sg \otimes (av \ominus (PA(S, n, "rs") \otimes iout)), tol)
  ELSE IF k = "PMUX" THEN
       IF sel = 0 THEN DIsZero(vout)
       ELSE EqS1(vout, sg \otimes (av \ominus (MuxRs(S, n, sel) \otimes iout)), tol)
  ELSE IF k = "RECTIFIER" THEN
       IF IsDiode(S, n) THEN
            \E f \in ParamVals(Par(S, n)["vdrop"], iout, vin) :
               EqS(vout, (av \otimes f[2]) \ominus (Two \otimes f[1]), f[2], tol)
       ELSE EqS1(vout, av \ominus (Two \otimes (PA(S, n, "rs") \otimes iout)), tol)
  ELSE FALSE

(* Input-current law.                                                       *)
IinLaw(S, n, ph, sel, vin, iout, iin, tol) ==
  LET k  == Kind(S, n)
      av == DAbs(vin)
      IoPlusIg == \E f \in ParamVals(Par(S, n)["ig"], iout, vin) :
                     EqS(iin, (iout \otimes f[2]) \oplus f[1], f[2], tol)
  IN
  IF k = "SOURCE" THEN
       IF ~Active(S, n, ph) \/ DIsZero(PC(S, n, "vo")) THEN DIsZero(iin) ELSE EqS1(iin, iout, tol)
  ELSE IF DIsZero(vin) THEN DIsZero(iin)
  ELSE IF Cls(S, n) = "PLoad" THEN EqS(iin, LoadValue(S, n, ph, "pwr", "pwrs"), av, tol)
  ELSE IF Cls(S, n) = "ILoad" THEN EqS1(iin, LoadValue(S, n, ph, "ii", "iis"), tol)
  ELSE IF Cls(S, n) = "RLoad" THEN EqS(iin, av, LoadValue(S, n, ph, "rs", ""), tol)
  ELSE IF k = "SLOSS" THEN EqS1(iin, iout, tol)
  ELSE IF k = "CONVERTER" THEN
       IF DIsZero(PC(S, n, "vo")) THEN DIsZero(iin)
       ELSE IF ~Active(S, n, ph) THEN DEq(iin, PA(S, n, "iis"))
       ELSE IF DIsZero(iout) THEN DEq(iin, PA(S, n, "iq"))
       ELSE \E f \in ParamVals(Par(S, n)["eff"], iout, vin) :
               EqS(iin, (PA(S, n, "vo") \otimes iout) \otimes f[2], av \otimes f[1], tol)
  ELSE IF k \in {"LINREG", "PSWITCH"} THEN
       IF ~Active(S, n, ph) THEN DEq(iin, PA(S, n, "iis")) ELSE IoPlusIg
  ELSE IF k = "PMUX" THEN
       IF sel = 0 THEN DIsZero(iin)
       ELSE IF ~Active(S, n, ph) THEN DEq(iin, PA(S, n, "iis")) ELSE IoPlusIg
  ELSE IF k = "RECTIFIER" THEN
       IF IsDiode(S, n) THEN EqS1(iin, iout, tol)
       ELSE IF DIsZero(iout) THEN DEq(iin, PA(S, n, "iq")) ELSE IoPlusIg
  ELSE FALSE

(* Loss law (C02): the documented loss expression of every kind, evaluated on the quantities of the row    *)
(* itself (reported Vin, Vout, Iin, Iout) - exact class.  eq(x, y, scale) is the comparison to use.        *)
LossLaw(S, n, ph, sel, vin, vout, iin, iout, loss, Eq(_, _, _)) ==
  LET k   == Kind(S, n)
      av  == DAbs(vin)
      ao  == DAbs(vout)
      io2 == iout \otimes iout
      Sleep == Eq(loss, PA(S, n, "iis") \otimes av, PA(S, n, "iis") \otimes av)
      \* ground current times input voltage plus the series drop times the output current
      IgPlusDrop(drop) ==
         \E f \in ParamVals(Par(S, n)["ig"], iout, vin) :
            Eq(loss \otimes f[2], (f[1] \otimes av) \oplus ((drop \otimes iout) \otimes f[2]),
               (f[1] \otimes av) \oplus ((DAbs(drop) \otimes iout) \otimes f[2]))
  IN
  IF k = "SOURCE" THEN
       IF ~Active(S, n, ph) \/ DIsZero(PC(S, n, "vo")) THEN DIsZero(loss)
       ELSE Eq(loss, PA(S, n, "rs") \otimes io2, PA(S, n, "rs") \otimes io2)
  ELSE IF k = "LOAD" THEN TRUE                                  \* C02.LoadExclusive
  ELSE IF DIsZero(vin) THEN DIsZero(loss)
  ELSE IF Cls(S, n) = "RLoss" THEN Eq(loss, PA(S, n, "rs") \otimes io2, PA(S, n, "rs") \otimes io2)
  ELSE IF Cls(S, n) = "VLoss" THEN
       \E f \in ParamVals(Par(S, n)["vdrop"], iout, vin) : Eq(loss \otimes f[2], f[1] \otimes iout, f[1] \otimes iout)
  ELSE IF k = "CONVERTER" THEN
       IF ~Active(S, n, ph) THEN Sleep
       ELSE IF DIsZero(iout) THEN Eq(loss, PA(S, n, "iq") \otimes av, PA(S, n, "iq") \otimes av)
       ELSE \E f \in ParamVals(Par(S, n)["eff"], iout, vin) :
               Eq(loss \otimes f[2], (av \otimes iin) \otimes (f[2] \ominus f[1]), (av \otimes iin) \otimes f[2])
  ELSE IF k = "LINREG" THEN
       IF ~Active(S, n, ph) THEN Sleep
       ELSE IgPlusDrop(av \ominus DMin(PA(S, n, "vo"), DMax(av \ominus PA(S, n, "vdrop"), DZero)))
  ELSE IF k = "PSWITCH" THEN
       IF ~Active(S, n, ph) THEN Sleep ELSE IgPlusDrop(av \ominus ao)
  ELSE IF k = "PMUX" THEN
       IF sel = 0 THEN DIsZero(loss)
       ELSE IF ~Active(S, n, ph) THEN Sleep ELSE IgPlusDrop(av \ominus ao)
  ELSE IF k = "RECTIFIER" THEN
       IF IsDiode(S, n) THEN
            \E f \in ParamVals(Par(S, n)["vdrop"], iout, vin) :
               Eq(loss \otimes f[2], (Two \otimes f[1]) \otimes iout, (Two \otimes f[1]) \otimes iout)
       ELSE IF DIsZero(iout) THEN Eq(loss, PA(S, n, "iq") \otimes av, PA(S, n, "iq") \otimes av)
       ELSE \E f \in ParamVals(Par(S, n)["ig"], iout, vin) :
               Eq(loss \otimes f[2], (f[1] \otimes av) \oplus (((Two \otimes PA(S, n, "rs")) \otimes io2) \otimes f[2]),
                  (f[1] \otimes av) \oplus (((Two \otimes PA(S, n, "rs")) \otimes io2) \otimes f[2]))
  ELSE FALSE

\* a passive series element must neither invert nor amplify its input (C03, C11)
Passive(S, n) == Kind(S, n) \in {"SLOSS", "PSWITCH", "PMUX", "RECTIFIER"}
PassiveOK(S, n, vin, vout, tol) ==
  /\ DLeq(DAbs(vout), DAbs(vin) \oplus TolS(vin, tol))
  /\ (Kind(S, n) # "RECTIFIER" /\ ~DIsZero(vout)) => DSign(vout) = DSign(vin)
  /\ Kind(S, n) = "RECTIFIER" => ~vout.n
\* the same for the internal resistance of a source (nominal voltage -> terminal voltage)
SourceOK(S, n, vout, tol) ==
  /\ DLeq(DAbs(vout), PA(S, n, "vo") \oplus TolS(PC(S, n, "vo"), tol))
  /\ ~DIsZero(vout) => DSign(vout) = DSign(PC(S, n, "vo"))

\* thermal resistance
Rt(S, n) == IF HasP(S, n, "rt") THEN PA(S, n, "rt") ELSE DZero
IsLossLoad(S, n) == Kind(S, n) = "LOAD" /\ PFlag(S, n, "loss")
=============================================================================
