SPECIFICATION Spec
INVARIANT ClassSound
CHECK_DEADLOCK FALSE
