------------------------------ MODULE TraceCtor ------------------------------
(* Validation of executed constructor cases against Ctor.tla.
   A case: [id, kind, a (parameter -> form), outcome = "ok" | exception class,
            stored = << [key, given, stored] >> for scalar parameters given as numbers] *)
EXTENDS Ctor, Dec, Json, IOUtils

Batch == JsonDeserialize(IOEnv.TRACE_FILE)
VARIABLES ci, verd, stat
tvars == <<ci, verd, stat>>
Cl(name, app, cond) == <<name, app, IF app THEN cond ELSE TRUE>>

\* parameters whose stored value is displayed raw by the library (judged on behaviour instead, see
\* C11.Normalises): the constant ground current of regulators / switches / mux / rectifier
RawShown(kind, key) == key = "ig"

CaseClauses(c) ==
  LET rej == Rejects(c.kind, c.a) IN
  << Cl("C11.Rejects", rej, c.outcome = "ValueError"),
     Cl("C11.Accepts", ~rej, c.outcome = "ok"),
     Cl("C11.Stored", ~rej /\ c.outcome = "ok",
        \A i \in DOMAIN c.stored :
           LET s == c.stored[i] IN
           IF s.key \in MagKeys(c.kind) THEN DEq(DJ(s.stored), DAbs(DJ(s.given)))
           ELSE IF s.key \in SignKept(c.kind) THEN DEq(DJ(s.stored), DJ(s.given))
           ELSE TRUE) >>

AllClauseNames == {"C11.Rejects", "C11.Accepts", "C11.Stored", "events"}
RECURSIVE SetToSeq(_)
SetToSeq(X) == IF X = {} THEN <<>> ELSE LET x == CHOOSE x \in X : TRUE IN <<x>> \o SetToSeq(X \ {x})
TInit == ci = 1 /\ verd = <<>> /\ stat = [c \in AllClauseNames |-> 0]
Step2(c, cls, bad) ==
  /\ verd' = verd \o SetToSeq({[tid |-> c.id, k |-> 1, clause |-> cls[i][1], op |-> c.kind, phase |-> ""] : i \in bad})
  /\ stat' = [nm \in AllClauseNames |-> stat[nm] + (IF nm = "events" THEN 1
                 ELSE Cardinality({i \in DOMAIN cls : cls[i][1] = nm /\ cls[i][2]}))]
  /\ ci' = ci + 1
Step1(c, cls) == Step2(c, cls, {i \in DOMAIN cls : cls[i][2] /\ ~cls[i][3]})
Step == ci <= Len(Batch) /\ Step1(Batch[ci], CaseClauses(Batch[ci]))
TSpec == TInit /\ [][Step]_tvars
Finished == ci > Len(Batch) => JsonSerialize(IOEnv.OUT_FILE, [verd |-> verd, stat |-> stat])
=============================================================================
