------------------------------- MODULE SimEdit -------------------------------
(***************************************************************************)
(* Behaviour generator over a large universe (all 11 classes, 8 names,      *)
(* rails overlapping the names, groups, phases).  Same actions as MCEdit;   *)
(* the next-state relation is split into accepted / rejected disjuncts per  *)
(* call so that `tlc -simulate` produces histories that grow, and the       *)
(* argument universes are sampled per step with RandomSubset so that one    *)
(* simulation step stays cheap.  Used only with -simulate.                  *)
(***************************************************************************)
EXTENDS MCEdit, Randomization

VARIABLES step,    \* step counter: keeps consecutive rejected calls distinct states
          act      \* the call just made: [op, a] with a the abstract argument record of SysTree

\* re-evaluated in every state (a constant-level RandomSubset would be evaluated once)
Pick(k, S) == IF step >= 0 THEN RandomSubset(IF Cardinality(S) < k THEN Cardinality(S) ELSE k, S) ELSE {}

\* references biased towards things that exist
LiveRefs == Names(sys) \cup Rails(sys)
RefPool  == Pick(3, LiveRefs) \cup Pick(1, RefU)
RefSeqs  == SeqsUpTo(RefPool, MaxRefs) \ {<<>>}

X(acc, op, a) == /\ Do(op, a)
                 /\ outcome' = acc
                 /\ step' = step + 1
                 /\ act' = [op |-> op, a |-> a]
C(name, cls, pay) == [name |-> name, cls |-> cls, pay |-> pay]
Acc == {"ok", "rej"}

SAddSource(acc) ==
  \E name \in Pick(2, NameU), cls \in Pick(1, ClassU) \cup {"Source"}, pay \in Pick(1, PayU),
     rail \in Pick(2, RailU), group \in Pick(1, GroupU) :
     X(acc, "add_source", [comp |-> C(name, cls, pay), rail |-> rail, group |-> group])
SAddComp(acc) ==
  \E refs \in Pick(6, RefSeqs) \cup {<<>>}, aslist \in BOOLEAN, name \in Pick(2, NameU),
     cls \in Pick(3, ClassU), pay \in Pick(1, PayU), rail \in Pick(2, RailU), group \in Pick(1, GroupU) :
     /\ (~aslist => Len(refs) = 1)
     /\ X(acc, "add_comp", [refs |-> refs, aslist |-> aslist, comp |-> C(name, cls, pay),
                            rail |-> rail, group |-> group])
SAddMux(acc) ==
  \E refs \in Pick(6, RefSeqs), name \in Pick(2, NameU), pay \in Pick(1, PayU),
     rail \in Pick(2, RailU), group \in Pick(1, GroupU) :
     X(acc, "add_comp", [refs |-> refs, aslist |-> TRUE, comp |-> C(name, "PMux", pay),
                         rail |-> rail, group |-> group])
SChangeComp(acc) ==
  \E target \in RefPool, name \in Pick(2, NameU) \cup Pick(1, Names(sys)), cls \in Pick(3, ClassU),
     pay \in Pick(1, PayU), rail \in Pick(2, RailU), group \in Pick(1, GroupU) :
     X(acc, "change_comp", [target |-> target, comp |-> C(name, cls, pay), rail |-> rail, group |-> group])
\* a change that keeps the name (parameter change / class change in place)
SChangeSame(acc) ==
  \E target \in Pick(2, Names(sys)), cls \in Pick(3, ClassU), pay \in Pick(1, PayU),
     rail \in Pick(2, RailU) \cup {sys.comps[t].rail : t \in Names(sys)}, group \in Pick(1, GroupU) :
     X(acc, "change_comp", [target |-> target, comp |-> C(target, cls, pay), rail |-> rail, group |-> group])
SDelComp(acc) ==
  \E target \in RefPool, delchilds \in BOOLEAN :
     X(acc, "del_comp", [target |-> target, delchilds |-> delchilds])
SSetSysPhases(acc) == \E phases \in SysPhU : X(acc, "set_sys_phases", [phases |-> phases])
SSetCompPhases(acc) ==
  \E ref \in RefPool, conf \in ConfU : X(acc, "set_comp_phases", [ref |-> ref, conf |-> conf])

NextSim ==
  \/ SAddSource("ok")     \/ SAddSource("rej")
  \/ SAddComp("ok")       \/ SAddComp("rej")     \/ SAddComp("ok")
  \/ SAddMux("ok")        \/ SAddMux("rej")
  \/ SChangeComp("ok")    \/ SChangeComp("rej")
  \/ SChangeSame("ok")    \/ SChangeSame("rej")
  \/ SDelComp("ok")       \/ SDelComp("rej")
  \/ SSetSysPhases("ok")  \/ SSetSysPhases("rej")
  \/ SSetCompPhases("ok") \/ SSetCompPhases("rej")

\* construction histories only: accepted additions and phase configuration (system generator)
FreeNames == NameU \ (Names(sys) \cup Rails(sys))
FreeRails == {""} \cup (RailU \ (Names(sys) \cup Rails(sys)))
NonLoads  == {n \in Names(sys) : Kind(sys, n) # "LOAD"}
BRef(n)   == IF sys.comps[n].rail # "" /\ step % 2 = 0 THEN sys.comps[n].rail ELSE n
BAddSource ==
  /\ Cardinality(Sources(sys)) < 3 /\ step % 3 = 1
  /\ \E name \in Pick(1, FreeNames), rail \in Pick(1, FreeRails), group \in Pick(1, GroupU) :
        X("ok", "add_source", [comp |-> C(name, "Source", 0), rail |-> rail, group |-> group])
BAddComp ==
  \E p \in Pick(1, NonLoads), name \in Pick(1, FreeNames), cls \in Pick(2, ClassU \ {"Source", "PMux"}),
     rail \in Pick(1, FreeRails), group \in Pick(1, GroupU) :
     X("ok", "add_comp", [refs |-> <<BRef(p)>>, aslist |-> FALSE, comp |-> C(name, cls, 0),
                          rail |-> rail, group |-> group])
BAddMux ==
  /\ Muxes(sys) = {}
  /\ \E k \in 1..MaxRefs, name \in Pick(1, FreeNames), rail \in Pick(1, FreeRails), group \in Pick(1, GroupU) :
       \E ins \in Pick(2, {s \in SeqsUpTo(Pick(4, NonLoads), k) : Len(s) = k /\ NoDup(s)}) :
          X("ok", "add_comp", [refs |-> [i \in DOMAIN ins |-> BRef(ins[i])], aslist |-> TRUE,
                               comp |-> C(name, "PMux", 0), rail |-> rail, group |-> group])
BPhases == step \in {0, 1, 2} /\ sys.sysph = <<>> /\ \E phases \in SysPhU : X("ok", "set_sys_phases", [phases |-> phases])
BCompPhases ==
  /\ sys.sysph # <<>>
  /\ \E n \in Pick(1, {m \in Names(sys) : Kind(sys, m) # "SLOSS"}), conf \in Pick(1, ConfU) :
        X("ok", "set_comp_phases", [ref |-> BRef(n), conf |-> conf])
NextBuild ==
  \/ BAddSource \/ BPhases \/ BPhases \/ BCompPhases
  \/ BAddComp \/ BAddComp \/ BAddComp \/ BAddMux
SpecBuild == (Init /\ step = 0 /\ act = [op |-> "init", a |-> <<>>]) /\ [][NextBuild]_<<vars, step, act>>

\* histories that concentrate on the PMux: build one quickly, then edit its inputs (rename, change of
\* class / rail, deletion with and without children, rejected variants of all of these) and try to
\* add muxes over illegal parent lists
MuxInputs == UNION {SeqRange(sys.par[m]) : m \in Muxes(sys)}
MuxRefs   == (MuxInputs \cup {sys.comps[n].rail : n \in MuxInputs}) \ {""}
SChangeMuxInput(acc) ==
  \E target \in Pick(2, MuxRefs), name \in Pick(2, NameU) \cup Pick(1, MuxInputs), cls \in Pick(4, ClassU),
     pay \in Pick(1, PayU), rail \in Pick(2, RailU), group \in Pick(1, GroupU) :
     X(acc, "change_comp", [target |-> target, comp |-> C(name, cls, pay), rail |-> rail, group |-> group])
SDelMuxInput(acc) ==
  \E target \in Pick(2, MuxRefs), delchilds \in BOOLEAN :
     X(acc, "del_comp", [target |-> target, delchilds |-> delchilds])
\* a parent list in which some entry is a load, a duplicate or unknown
SAddMuxOver(acc) ==
  \E k \in 2..MaxRefs, name \in Pick(2, NameU), rail \in Pick(1, RailU) :
     \E ins \in Pick(3, {q \in SeqsUpTo(Pick(4, LiveRefs) \cup Pick(1, RefU), k) : Len(q) = k}) :
        X(acc, "add_comp", [refs |-> ins, aslist |-> TRUE, comp |-> C(name, "PMux", 0), rail |-> rail, group |-> ""])
NextMux ==
  IF Muxes(sys) = {} /\ step < 12
  THEN BAddSource \/ BAddComp \/ BAddComp \/ BAddMux \/ BAddMux \/ SAddMuxOver("rej") \/ SAddMuxOver("ok")
  ELSE \/ SChangeMuxInput("ok") \/ SChangeMuxInput("rej") \/ SChangeMuxInput("rej")
       \/ SDelMuxInput("ok") \/ SDelMuxInput("rej")
       \/ SAddMuxOver("rej") \/ SAddComp("ok") \/ SAddSource("ok")
       \/ SChangeSame("ok") \/ SChangeSame("rej") \/ SDelComp("ok") \/ SSetCompPhases("ok")
SpecMux == (Init /\ step = 0 /\ act = [op |-> "init", a |-> <<>>]) /\ [][NextMux]_<<vars, step, act>>

\* delete-then-regrow histories: a tree is built, an early component is deleted (its node index becomes free), new
\* components are added in a chain below later ones (the freed index is re-used by an inner node that then gets
\* children), and again
JustAdded == IF act.op = "add_comp" /\ act.a.comp.name \in Names(sys) /\ Kind(sys, act.a.comp.name) # "LOAD"
             THEN {act.a.comp.name} ELSE {}
BGrow ==
  \E p \in (IF JustAdded # {} THEN JustAdded ELSE Pick(1, NonLoads)), name \in Pick(1, FreeNames),
     cls \in Pick(2, ClassU \ {"Source", "PMux"}), rail \in Pick(1, FreeRails), group \in Pick(1, GroupU) :
     X("ok", "add_comp", [refs |-> <<p>>, aslist |-> FALSE, comp |-> C(name, cls, 0), rail |-> rail, group |-> group])
BInner ==
  \E p \in Pick(1, NonLoads), name \in Pick(1, FreeNames), cls \in Pick(1, {"Converter", "LinReg", "RLoss", "PSwitch", "VLoss"}),
     rail \in Pick(1, FreeRails), group \in Pick(1, GroupU) :
     X("ok", "add_comp", [refs |-> <<BRef(p)>>, aslist |-> FALSE, comp |-> C(name, cls, 0), rail |-> rail, group |-> group])
\* (a source may be deleted too - with its subtree - when another one remains: index 0 becomes free)
BDelEarly ==
  \E target \in Pick(2, Names(sys) \ Sources(sys)) \cup Pick(1, Sources(sys)), delchilds \in BOOLEAN :
     X("ok", "del_comp", [target |-> target, delchilds |-> delchilds])
BSecondMux ==
  Muxes(sys) # {} /\ \E ins \in Pick(2, {q \in SeqsUpTo(Pick(3, NonLoads), 2) : Len(q) >= 1 /\ NoDup(q)}), name \in Pick(1, FreeNames) :
     X("rej", "add_comp", [refs |-> ins, aslist |-> TRUE, comp |-> C(name, "PMux", 0), rail |-> "", group |-> ""])
NextReuse ==
  IF step < 5 THEN BInner \/ BInner \/ BAddComp \/ BAddSource \/ BAddSource \/ BAddMux
  ELSE IF step \in {5, 9} THEN BDelEarly
  ELSE IF step \in {6, 10} /\ Muxes(sys) = {} THEN BAddMux \/ BGrow
  ELSE BGrow \/ BGrow \/ BAddMux \/ BSecondMux
SpecReuse == (Init /\ step = 0 /\ act = [op |-> "init", a |-> <<>>]) /\ [][NextReuse]_<<vars, step, act>>

SpecSim == (Init /\ step = 0 /\ act = [op |-> "init", a |-> <<>>]) /\ [][NextSim]_<<vars, step, act>>

CfgConfSim == {[t |-> "list", v |-> <<"p">>], [t |-> "list", v |-> <<"q", "s">>],
               [t |-> "list", v |-> <<>>], [t |-> "bad", v |-> <<>>]}
CfgConfBuild == {[t |-> "list", v |-> <<"p">>], [t |-> "list", v |-> <<"q", "s">>],
                 [t |-> "list", v |-> <<"p", "q">>], [t |-> "list", v |-> <<"s">>]}
CfgSysPhBuild == {<<>>, <<Ph("p"), Ph("q")>>, <<Ph("s"), Ph("p"), Ph("q")>>}
CfgSysPhSim == {<<>>, <<Ph("p"), Ph("q")>>, <<Ph("s"), Ph("p"), Ph("q")>>, <<Ph("p")>>,
                <<Ph("N/A"), Ph("p")>>}
=============================================================================
