------------------------------- MODULE Solver -------------------------------
(***************************************************************************)
(* The fixed-point loop of solve() as a state machine:                      *)
(*                                                                          *)
(*   init -> (sweep)* -> returned | raisedNoConv | raisedUnstable           *)
(*                                                                          *)
(* A sweep evaluates every component law once (forward pass for voltages,   *)
(* backward pass for currents) on the previous iterate.  The loop returns   *)
(* the PREVIOUS iterate of the first sweep whose result is within the       *)
(* requested tolerance of it (numpy.allclose: |a-b| <= 1e-8 + tol*|b| on    *)
(* both vectors), provided that sweep is one of the first `maxiter`;        *)
(* otherwise it raises RuntimeError after at most maxiter+1 sweeps.  A      *)
(* sweep in which a series element would lose its polarity raises           *)
(* ValueError instead.                                                      *)
(* The bounded model abstracts the numbers: whether a sweep converges, or   *)
(* is unstable, is chosen nondeterministically.                             *)
(***************************************************************************)
EXTENDS Naturals, Sequences

CONSTANT MaxIterU        \* set of maxiter settings

VARIABLES pc, maxiter, k, hist
\* pc      : "run" | "returned" | "noconv" | "unstable"
\* k       : sweeps performed
\* hist    : per sweep "conv" / "not" (did the sweep's result meet the tolerance?)
vars == <<pc, maxiter, k, hist>>

Init == /\ pc = "run" /\ k = 0 /\ hist = <<>>
        /\ maxiter \in MaxIterU

\* control state after the (kk+1)-th sweep had the given outcome (used by the model and by the
\* trace validator TraceSolver)
PcStep(kk, outcome, mx) ==
  IF outcome = "unstable" THEN "unstable"
  ELSE IF outcome = "conv" THEN (IF kk + 1 <= mx THEN "returned" ELSE "noconv")
  ELSE IF kk + 1 > mx THEN "noconv" ELSE "run"

\* the loop guard of the implementation: while iters <= maxiter
Sweep(outcome) ==
  /\ pc = "run"
  /\ k <= maxiter
  /\ k' = k + 1
  /\ hist' = Append(hist, outcome)
  /\ maxiter' = maxiter
  /\ pc' = PcStep(k, outcome, maxiter)

Next == \E o \in {"conv", "not", "unstable"} : Sweep(o)
Spec == Init /\ [][Next]_vars

\* ---- invariants (C03) ----------------------------------------------------
\* only the first converged sweep ends the loop with a result, never an earlier iterate
ReturnOnlyConverged ==
  pc = "returned" => /\ hist[k] = "conv"
                     /\ \A j \in 1..(k - 1) : hist[j] = "not"
                     /\ k <= maxiter
\* the loop always terminates within maxiter + 1 sweeps
Terminates == k <= maxiter + 1 /\ (pc = "run" => k <= maxiter)
\* RuntimeError exactly when no sweep among the first maxiter converged (and none was unstable)
NoConvOnlyLate ==
  pc = "noconv" => /\ k = maxiter + 1
                   /\ \A j \in 1..maxiter : hist[j] = "not"
UnstableStops == pc = "unstable" => hist[k] = "unstable" /\ \A j \in 1..(k - 1) : hist[j] = "not"
\* every terminal state is one of the three documented outcomes and nothing follows it
Outcomes == pc \in {"run", "returned", "noconv", "unstable"}
=============================================================================
