SPECIFICATION Spec
CONSTANTS
  NameU = {"a", "b"}
  RailU = {"", "r", "b"}
  ClassU = {"Source", "PLoad", "RLoss", "Converter", "PMux"}
  PayU = {0}
  GroupU = {""}
  ConfU <- CfgConf1
  SysPhU <- CfgSysPh1
  MaxRefs = 2
  InitName = "a"
INVARIANT TypeOK
INVARIANT InvWellFormed
INVARIANT InvHasSource
PROPERTY RejectedUnchanged
CHECK_DEADLOCK FALSE
