SPECIFICATION Spec
CONSTANTS
  MaxComps = 3
  WithRails = TRUE
INVARIANT InvWellFormed
INVARIANT InvLiveIsChain
INVARIANT InvDeadIsolates
INVARIANT InvMuxFirstLive
INVARIANT InvDomainIsLiveSource
INVARIANT InvRailsPartition
CHECK_DEADLOCK FALSE
