SPECIFICATION Spec
CONSTANTS
  Variant = "fixed"
  NameU = {"a", "b", "c"}
  RailU = {"", "b"}
  ClassU = {"Source", "PLoad", "RLoss", "Converter", "PMux"}
  PayU = {0}
  GroupU = {""}
  ConfU <- CfgConf1
  SysPhU <- CfgSysPh1
  MaxRefs = 2
  InitName = "a"
INVARIANT InvConsistent
INVARIANT InvWellFormed
CHECK_DEADLOCK FALSE
