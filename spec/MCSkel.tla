------------------------------- MODULE MCSkel -------------------------------
(***************************************************************************)
(* The discrete electrical skeleton of a power tree, checked exhaustively.  *)
(*                                                                          *)
(* TLC builds EVERY well-formed tree of up to MaxComps components (creation *)
(* order fixes the names a, b, c, ...) from five structural classes         *)
(*   Source (0 V or live, optionally active in one of two phases only),     *)
(*   Series   (always-on series element: RLoss),                            *)
(*   Switch   (switchable element with a phase list: Converter),            *)
(*   Mux      (PMux with 1..3 ordered inputs, optional phase list),         *)
(*   Load,                                                                  *)
(* with the construction actions of SysTree (so every state is a reachable  *)
(* state of the edit specification), and evaluates on it, for both phases,  *)
(* the notions C04 / C05 / C07 / C08 are stated in:                         *)
(*   OutLive / InLive (Elec)   who has voltage                               *)
(*   Sel        the input a mux connects = its first live input             *)
(*   Supply     the component that actually feeds a component               *)
(*   Domain     the source that actually powers it                          *)
(*   RailIn, FedBy   the rail a component draws from, who a rail feeds      *)
(* The invariants say that these notions fit together (a live component has *)
(* a live, active chain of suppliers up to a live source which is its       *)
(* domain; a mux never selects a dead input while a live one has priority;  *)
(* rails partition the consumers).  Every state is also handed to the       *)
(* conformance driver (harness/skel.py): it is instantiated with numbers,   *)
(* solved by the library, and the table is validated by TraceSolve.         *)
(***************************************************************************)
EXTENDS Elec, TLC

CONSTANTS MaxComps,      \* number of components
          WithRails      \* TRUE: every non-load component may own a rail

VARIABLES S
vars == <<S>>

NameSeq == <<"a", "b", "c", "d", "e", "f">>
NextName(s) == NameSeq[Cardinality(Names(s)) + 1]
Ph == {"p", "q"}
SysPh == << [name |-> "p", dur |-> <<0, 0, 1>>], [name |-> "q", dur |-> <<0, 0, 3>>] >>

Num(k) == [k |-> "c", v |-> IF k = 0 THEN <<0, 0>> ELSE <<0, 0, k>>]
Pay(cls, zero) ==
  IF cls = "Source" THEN [params |-> [vo |-> Num(IF zero THEN 0 ELSE 5), rs |-> Num(0)], limits |-> <<>>]
  ELSE [params |-> [x |-> Num(1)], limits |-> <<>>]
Confs == {NoConf, [t |-> "list", v |-> <<"p">>], [t |-> "list", v |-> <<"q">>]}
RailOf(n) == "R" \o n
RailChoice(cls, n) == IF WithRails /\ KindOf(cls) # "LOAD" THEN {"", RailOf(n)} ELSE {""}

Full(s) == Cardinality(Names(s)) >= MaxComps
NonLoads(s) == {n \in Names(s) : Kind(s, n) # "LOAD"}

Put(s, a, conf) ==
  LET t == IF a.op = "src" THEN AddSourceEff(s, a) ELSE AddCompEff(s, a)
  IN [t EXCEPT !.pconf[a.comp.name] = conf]

Init ==
  \E zero \in BOOLEAN, conf \in Confs, rail \in RailChoice("Source", "a") :
     S = [NewSystem([comp |-> [name |-> "a", cls |-> "Source", pay |-> Pay("Source", zero)], rail |-> rail, group |-> ""])
            EXCEPT !.sysph = SysPh, !.pconf["a"] = conf]

AddSrc ==
  /\ ~Full(S) /\ Cardinality(Sources(S)) < 2
  /\ \E zero \in BOOLEAN, conf \in Confs, rail \in RailChoice("Source", NextName(S)) :
        LET a == [op |-> "src", comp |-> [name |-> NextName(S), cls |-> "Source", pay |-> Pay("Source", zero)],
                  rail |-> rail, group |-> ""]
        IN AddSourceOK(S, a) /\ S' = Put(S, a, conf)
AddOne ==
  /\ ~Full(S)
  /\ \E p \in NonLoads(S), cls \in {"RLoss", "Converter", "ILoad"} :
     \E rail \in RailChoice(cls, NextName(S)), conf \in (IF cls = "Converter" THEN Confs ELSE {NoConf}) :
        LET a == [op |-> "comp", refs |-> <<p>>, aslist |-> FALSE,
                  comp |-> [name |-> NextName(S), cls |-> cls, pay |-> Pay(cls, FALSE)], rail |-> rail, group |-> ""]
        IN AddCompOK(S, a) /\ S' = Put(S, a, conf)
InputSeqs(s) == {q \in UNION {[1..k -> NonLoads(s)] : k \in 1..3} : NoDup(q)}
AddMux ==
  /\ ~Full(S) /\ Muxes(S) = {}
  /\ \E ins \in InputSeqs(S), conf \in Confs, rail \in RailChoice("PMux", NextName(S)) :
        LET a == [op |-> "comp", refs |-> ins, aslist |-> TRUE,
                  comp |-> [name |-> NextName(S), cls |-> "PMux", pay |-> Pay("PMux", FALSE)], rail |-> rail, group |-> ""]
        IN AddCompOK(S, a) /\ S' = Put(S, a, conf)
Next == AddSrc \/ AddOne \/ AddMux
Spec == Init /\ [][Next]_vars

-----------------------------------------------------------------------------
(* The skeleton, from the structure alone                                    *)
Sel(s, m, ph) ==
  LET live == {i \in DOMAIN s.par[m] : OutLive(s, s.par[m][i], ph)}
  IN IF live = {} THEN 0 ELSE CHOOSE i \in live : \A j \in live : i <= j
Supply(s, n, ph) ==
  IF s.par[n] = <<>> THEN n
  ELSE IF Len(s.par[n]) = 1 THEN s.par[n][1]
  ELSE s.par[n][IF Sel(s, n, ph) = 0 THEN 1 ELSE Sel(s, n, ph)]
RECURSIVE Domain(_, _, _)
Domain(s, n, ph) == IF s.par[n] = <<>> THEN n ELSE Domain(s, Supply(s, n, ph), ph)
RailIn(s, n, ph) == IF s.par[n] = <<>> THEN "" ELSE s.comps[Supply(s, n, ph)].rail
FedBy(s, r, ph)  == {n \in Names(s) : s.par[n] # <<>> /\ RailIn(s, n, ph) = r}

\* independent characterisation of "has voltage": a chain of active suppliers, each the selected input of the next,
\* that ends in an active source with a non-zero voltage
RECURSIVE Chain(_, _, _)
Chain(s, n, ph) ==
  IF s.par[n] = <<>> THEN Active(s, n, ph) /\ ~DIsZero(PC(s, n, "vo"))
  ELSE /\ Kind(s, n) # "LOAD" /\ Active(s, n, ph)
       /\ (Kind(s, n) = "PMUX" => Sel(s, n, ph) # 0)
       /\ Chain(s, Supply(s, n, ph), ph)

InvWellFormed == WellFormed(S)
\* C04: voltage at a component's output  <=>  an unbroken active chain to a live source
InvLiveIsChain == \A n \in Names(S), ph \in Ph : Kind(S, n) # "LOAD" => (OutLive(S, n, ph) <=> Chain(S, n, ph))
\* C04: below a dead supplier everything is dead (a mux only if no other input is live)
InvDeadIsolates ==
  \A n \in Names(S), ph \in Ph :
     (S.par[n] # <<>> /\ ~OutLive(S, Supply(S, n, ph), ph)) => (~InLive(S, n, ph) /\ (Kind(S, n) # "LOAD" => ~OutLive(S, n, ph)))
\* C05: the selected input is live and no input of higher priority is; no selection <=> no live input
InvMuxFirstLive ==
  \A m \in Muxes(S), ph \in Ph :
     LET k == Sel(S, m, ph) IN
     IF k = 0 THEN ~InLive(S, m, ph)
     ELSE OutLive(S, S.par[m][k], ph) /\ \A j \in 1..(k - 1) : ~OutLive(S, S.par[m][j], ph)
\* C07: the domain is a source; a component with voltage at its input is powered by a live, active source
InvDomainIsLiveSource ==
  \A n \in Names(S), ph \in Ph :
     /\ Kind(S, Domain(S, n, ph)) = "SOURCE"
     /\ (S.par[n] # <<>> /\ InLive(S, n, ph)) => OutLive(S, Domain(S, n, ph), ph)
     /\ Domain(S, n, ph) \in Sources(S)
\* C08: per phase every consumer draws from exactly one supplier; the rails partition the consumers of railed suppliers
InvRailsPartition ==
  \A ph \in Ph :
     /\ \A r1, r2 \in Rails(S) : r1 # r2 => FedBy(S, r1, ph) \cap FedBy(S, r2, ph) = {}
     /\ UNION {FedBy(S, r, ph) : r \in Rails(S) \cup {""}} = {n \in Names(S) : S.par[n] # <<>>}
     /\ \A r \in Rails(S) : \A n \in FedBy(S, r, ph) : S.comps[Supply(S, n, ph)].rail = r
=============================================================================
