SPECIFICATION Spec
CONSTANTS
  MaxIterU = {0, 1, 2, 3, 4, 5, 6}
INVARIANT ReturnOnlyConverged
INVARIANT Terminates
INVARIANT NoConvOnlyLate
INVARIANT UnstableStops
INVARIANT Outcomes
CHECK_DEADLOCK FALSE
