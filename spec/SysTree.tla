------------------------------ MODULE SysTree ------------------------------
(***************************************************************************)
(* Abstract state of one sysloss `System` and the effect of every editing   *)
(* / configuration call of the public API.                                  *)
(*                                                                          *)
(* A state S is a record                                                    *)
(*   comps : name -> [cls, pay, rail, group]   cls = Python class name,     *)
(*                                              pay = opaque payload         *)
(*   par   : name -> Seq(name)     supply inputs in priority order          *)
(*   pconf : name -> opaque phase configuration                             *)
(*   sysph : Seq([name, dur])      system phases in declared order          *)
(*                                                                          *)
(* Every call has a guard XxxOK(S, a) and an effect XxxEff(S, a); the call  *)
(* is accepted iff the guard holds, a rejected call leaves S unchanged.     *)
(* The operators are pure so that the bounded model (MCEdit), the           *)
(* behaviour generators and the trace validator (TraceEdit) all use the     *)
(* very same text.                                                          *)
(***************************************************************************)
EXTENDS Naturals, Sequences, FiniteSets, TLC

KindOf(cls) ==
  CASE cls = "Source"                      -> "SOURCE"
    [] cls \in {"PLoad", "ILoad", "RLoad"} -> "LOAD"
    [] cls \in {"RLoss", "VLoss"}          -> "SLOSS"
    [] cls = "Converter"                   -> "CONVERTER"
    [] cls = "LinReg"                      -> "LINREG"
    [] cls = "PSwitch"                     -> "PSWITCH"
    [] cls = "PMux"                        -> "PMUX"
    [] cls = "Rectifier"                   -> "RECTIFIER"
    [] OTHER                               -> "UNKNOWN"

AllClasses == {"Source", "PLoad", "ILoad", "RLoad", "RLoss", "VLoss", "Converter",
               "LinReg", "PSwitch", "PMux", "Rectifier"}

\* the link parent-kind -> child-kind that add_comp accepts
AcceptsChild(pk, ck) == pk # "LOAD" /\ ck # "SOURCE" /\ ck # "UNKNOWN"

NoConf == [t |-> "none", v |-> <<>>]

-----------------------------------------------------------------------------
Names(S)   == DOMAIN S.comps
Rails(S)   == {S.comps[n].rail : n \in Names(S)} \ {""}
Kind(S, n) == KindOf(S.comps[n].cls)
Sources(S) == {n \in Names(S) : Kind(S, n) = "SOURCE"}
Muxes(S)   == {n \in Names(S) : Kind(S, n) = "PMUX"}

SeqRange(s) == {s[i] : i \in DOMAIN s}
NoDup(s)    == \A i, j \in DOMAIN s : s[i] = s[j] => i = j

RECURSIVE Dedup(_)
Dedup(s) == IF s = <<>> THEN <<>>
            ELSE LET r == Dedup(SubSeq(s, 1, Len(s) - 1)) IN
                 IF s[Len(s)] \in SeqRange(r) THEN r ELSE Append(r, s[Len(s)])

Children(S, n) == {c \in Names(S) : n \in SeqRange(S.par[c])}

RECURSIVE DescR(_, _, _)
DescR(S, front, acc) ==
  IF front = {} THEN acc
  ELSE LET nx == (UNION {Children(S, f) : f \in front}) \ acc
       IN  DescR(S, nx, acc \cup nx)
Desc(S, n) == DescR(S, {n}, {})

\* a reference is a component name or a rail name ("" is neither)
Known(S, r)   == r # "" /\ (r \in Names(S) \/ r \in Rails(S))
Resolve(S, r) == IF r \in Names(S) THEN r
                 ELSE CHOOSE n \in Names(S) : S.comps[n].rail = r

\* a new name/rail pair must not collide with any name or rail in use
NameFree(S, name, rail) ==
  /\ name \notin Names(S)
  /\ name \notin Rails(S)
  /\ rail # "" => /\ rail # name
                  /\ rail \notin Names(S)
                  /\ rail \notin Rails(S)

StoredRail(cls, rail) == IF KindOf(cls) = "LOAD" THEN "" ELSE rail
Entry(c, rail, group) == [cls |-> c.cls, pay |-> c.pay,
                          rail |-> StoredRail(c.cls, rail), group |-> group]

-----------------------------------------------------------------------------
(* System(name, source, group, rail) : the initial state                    *)
NewSystemOK(a)  == KindOf(a.comp.cls) = "SOURCE"
NewSystem(a) ==
  [comps |-> (a.comp.name :> Entry(a.comp, a.rail, a.group)),
   par   |-> (a.comp.name :> <<>>),
   pconf |-> (a.comp.name :> NoConf),
   sysph |-> <<>>]

(* add_source(source, group, rail)                                          *)
AddSourceOK(S, a) ==
  /\ NameFree(S, a.comp.name, a.rail)
  /\ KindOf(a.comp.cls) = "SOURCE"
AddSourceEff(S, a) ==
  [S EXCEPT !.comps = (a.comp.name :> Entry(a.comp, a.rail, a.group)) @@ @,
            !.par   = (a.comp.name :> <<>>) @@ @,
            !.pconf = (a.comp.name :> NoConf) @@ @]

(* add_comp(parent, comp, group, rail); a.refs is the reference list,        *)
(* a.aslist tells whether the caller passed a list                          *)
AddCompOK(S, a) ==
  /\ Len(a.refs) >= 1
  /\ a.aslist => NoDup(a.refs) /\ KindOf(a.comp.cls) = "PMUX"
  /\ ~a.aslist => Len(a.refs) = 1
  /\ \A i \in DOMAIN a.refs : Known(S, a.refs[i])
  /\ NameFree(S, a.comp.name, a.rail)
  /\ \A i \in DOMAIN a.refs :
        AcceptsChild(Kind(S, Resolve(S, a.refs[i])), KindOf(a.comp.cls))
  /\ KindOf(a.comp.cls) = "PMUX" => Muxes(S) = {}
\* two references to one component (its name and its rail) are outside the model
AddCompModelled(S, a) ==
  ((\A i \in DOMAIN a.refs : Known(S, a.refs[i])) /\ NoDup(a.refs))
     => NoDup([i \in DOMAIN a.refs |-> Resolve(S, a.refs[i])])
AddCompEff(S, a) ==
  [S EXCEPT !.comps = (a.comp.name :> Entry(a.comp, a.rail, a.group)) @@ @,
            !.par   = (a.comp.name :> [i \in DOMAIN a.refs |-> Resolve(S, a.refs[i])]) @@ @,
            !.pconf = (a.comp.name :> NoConf) @@ @]

(* change_comp(name, comp, group, rail)                                     *)
ChangeCompOK(S, a) ==
  /\ a.target \in Names(S)
  /\ LET old == S.comps[a.target]
         okd == KindOf(old.cls)
         nkd == KindOf(a.comp.cls)
     IN
     /\ IF a.comp.name # a.target
        THEN NameFree(S, a.comp.name, a.rail)
        ELSE (a.rail # "" /\ a.rail # old.rail) =>
                /\ a.rail # a.target
                /\ a.rail \notin Names(S)
                /\ a.rail \notin Rails(S)
     /\ nkd # "UNKNOWN"
     /\ okd = "SOURCE" => nkd = "SOURCE"
     /\ okd = "PMUX" => nkd = "PMUX"
     /\ S.par[a.target] # <<>> => AcceptsChild(Kind(S, S.par[a.target][1]), nkd)
     /\ \A c \in Children(S, a.target) : AcceptsChild(nkd, Kind(S, c))
     /\ (nkd = "PMUX" /\ okd # "PMUX") => Muxes(S) = {}
ChangeCompEff(S, a) ==
  LET o   == a.target
      n   == a.comp.name
      dom == (Names(S) \ {o}) \cup {n}
      Old(m) == IF m = n THEN o ELSE m
      Ren(x) == IF x = o THEN n ELSE x
  IN [comps |-> [m \in dom |-> IF m = n THEN Entry(a.comp, a.rail, a.group)
                                       ELSE S.comps[m]],
      par   |-> [m \in dom |-> [i \in DOMAIN S.par[Old(m)] |-> Ren(S.par[Old(m)][i])]],
      pconf |-> [m \in dom |-> IF m = n THEN NoConf ELSE S.pconf[m]],
      sysph |-> S.sysph]

(* del_comp(name, del_childs)                                               *)
DelCompOK(S, a) ==
  /\ a.target \in Names(S)
  /\ S.par[a.target] = <<>> => /\ a.delchilds
                               /\ Cardinality(Sources(S)) >= 2
Restrict(f, D) == [x \in D |-> f[x]]
DelCompEff(S, a) ==
  LET t == a.target IN
  IF a.delchilds
  THEN LET keep == Names(S) \ ({t} \cup Desc(S, t)) IN
       [comps |-> Restrict(S.comps, keep), par |-> Restrict(S.par, keep),
        pconf |-> Restrict(S.pconf, keep), sysph |-> S.sysph]
  ELSE LET keep == Names(S) \ {t}
           up   == S.par[t][1]
           Sub(s) == Dedup([i \in DOMAIN s |-> IF s[i] = t THEN up ELSE s[i]])
       IN [comps |-> Restrict(S.comps, keep),
           par   |-> [m \in keep |-> Sub(S.par[m])],
           pconf |-> Restrict(S.pconf, keep), sysph |-> S.sysph]

(* set_sys_phases(phases) : a.phases is the dict as a sequence of [name,dur] *)
SetSysPhasesOK(S, a) ==
  /\ Len(a.phases) # 1
  /\ \A i \in DOMAIN a.phases : a.phases[i].name # "N/A"
SetSysPhasesEff(S, a) == [S EXCEPT !.sysph = a.phases]

(* set_comp_phases(name, phase_conf) : a.ref is a name or a rail,            *)
(* a.conf = [t |-> "list" | "map" | "bad", v |-> ...]                         *)
\* (an empty dict / list - conf.t = "none" - is accepted and clears the configuration)
SetCompPhasesOK(S, a) ==
  /\ Known(S, a.ref)
  /\ a.conf.t \in {"list", "map", "none"}
  /\ Kind(S, Resolve(S, a.ref)) # "SLOSS"
SetCompPhasesEff(S, a) == [S EXCEPT !.pconf[Resolve(S, a.ref)] = a.conf]

-----------------------------------------------------------------------------
(* Dispatch on the name of the public call                                  *)
EditOps == {"add_source", "add_comp", "change_comp", "del_comp",
            "set_sys_phases", "set_comp_phases"}

OpOK(S, op, a) ==
  CASE op = "add_source"      -> AddSourceOK(S, a)
    [] op = "add_comp"        -> AddCompOK(S, a)
    [] op = "change_comp"     -> ChangeCompOK(S, a)
    [] op = "del_comp"        -> DelCompOK(S, a)
    [] op = "set_sys_phases"  -> SetSysPhasesOK(S, a)
    [] op = "set_comp_phases" -> SetCompPhasesOK(S, a)

OpEff(S, op, a) ==
  CASE op = "add_source"      -> AddSourceEff(S, a)
    [] op = "add_comp"        -> AddCompEff(S, a)
    [] op = "change_comp"     -> ChangeCompEff(S, a)
    [] op = "del_comp"        -> DelCompEff(S, a)
    [] op = "set_sys_phases"  -> SetSysPhasesEff(S, a)
    [] op = "set_comp_phases" -> SetCompPhasesEff(S, a)

OpModelled(S, op, a) ==
  CASE op = "add_comp" -> AddCompModelled(S, a)
    [] OTHER           -> TRUE

-----------------------------------------------------------------------------
(* Well-formedness (property C14), one operator per conjunct                *)
WFUniqueRails(S) ==
  \A m, n \in Names(S) : (m # n /\ S.comps[m].rail # "") => S.comps[m].rail # S.comps[n].rail
WFNamesRailsDisjoint(S) == Rails(S) \cap Names(S) = {}
WFRootsAreSources(S) ==
  \A n \in Names(S) : (S.par[n] = <<>>) <=> (Kind(S, n) = "SOURCE")
WFLoadLeaf(S) == \A n \in Names(S) : Kind(S, n) = "LOAD" => Children(S, n) = {}
WFOnlyMuxMultiParent(S) == \A n \in Names(S) : Len(S.par[n]) > 1 => Kind(S, n) = "PMUX"
WFOneMux(S) == Cardinality(Muxes(S)) <= 1
WFLinkAcceptable(S) ==
  \A n \in Names(S) :
     /\ NoDup(S.par[n])
     /\ \A i \in DOMAIN S.par[n] :
           /\ S.par[n][i] \in Names(S)
           /\ AcceptsChild(Kind(S, S.par[n][i]), Kind(S, n))
WFAcyclic(S) == \A n \in Names(S) : n \notin Desc(S, n)
WFTotal(S) == DOMAIN S.par = Names(S) /\ DOMAIN S.pconf = Names(S) /\ Names(S) # {}

WellFormed(S) ==
  /\ WFTotal(S)
  /\ WFUniqueRails(S)
  /\ WFNamesRailsDisjoint(S)
  /\ WFRootsAreSources(S)
  /\ WFLoadLeaf(S)
  /\ WFOnlyMuxMultiParent(S)
  /\ WFOneMux(S)
  /\ WFLinkAcceptable(S)
  /\ WFAcyclic(S)
=============================================================================
