SPECIFICATION Spec
INVARIANT Finished
CHECK_DEADLOCK FALSE
