SPECIFICATION Spec
CONSTANTS
  MaxComps = 4
  WithRails = FALSE
INVARIANT InvWellFormed
INVARIANT InvLiveIsChain
INVARIANT InvDeadIsolates
INVARIANT InvMuxFirstLive
INVARIANT InvDomainIsLiveSource
INVARIANT InvRailsPartition
CHECK_DEADLOCK FALSE
