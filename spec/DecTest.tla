------------------------------ MODULE DecTest ------------------------------
(* Self test of Dec.tla against Python's decimal module: IOEnv.TRACE_FILE holds
   cases [a, b, a+b, a-b, a*b, cmp(a,b)] in wire form. *)
EXTENDS Dec, Json, IOUtils, TLC, FiniteSets

Cases == JsonDeserialize(IOEnv.TRACE_FILE)
Bad == {i \in DOMAIN Cases :
          LET c == Cases[i] a == DJ(c[1]) b == DJ(c[2]) IN
          ~ /\ DEq(DAdd(a, b), DJ(c[3]))
            /\ DEq(DSub(a, b), DJ(c[4]))
            /\ DEq(DMul(a, b), DJ(c[5]))
            /\ DCmp(a, b) = c[6]
            /\ IsNum(c[1]) /\ ~IsNum(<<2, 0>>) /\ IsBlank(<<2, 0>>)}
ASSUME PrintT(<<"dec-selftest", Len(Cases), Bad>>)
ASSUME Bad = {}
VARIABLE x
Init == x = 0
Next == UNCHANGED x
=============================================================================
