SPECIFICATION Spec
INVARIANT TypeOK
CHECK_DEADLOCK FALSE
