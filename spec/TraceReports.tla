---------------------------- MODULE TraceReports ----------------------------
(***************************************************************************)
(* The descriptive reports of a System as RELATIONS between the abstract    *)
(* state S (SysTree / Elec) and what the call returned:                     *)
(*                                                                          *)
(*   ParamsOK  params(limits=True) : one row per component, its kind, every *)
(*             parameter of its class with the configured value (a table    *)
(*             shows as "interp", a resistance list as the list, the loss   *)
(*             flag as a boolean), blank cells for parameters the class     *)
(*             does not have; every applicable limit that was supplied with *)
(*             a non-default value shows that value, the others are blank   *)
(*   LimitsOK  limits() : the limit columns of the same relation            *)
(*   PhasesOK  phases() : nothing without system phases; otherwise for      *)
(*             every component one row per system phase it is configured    *)
(*             for (declared order), or one row "N/A"; a load row shows the *)
(*             value of that phase (its base value under "N/A")             *)
(*   TreeOK    tree()   : the printed tree has the system name as root, the *)
(*             sources below it and exactly the parent -> child links of S  *)
(*   SaveDocOK save()   : the document holds exactly the components of S,   *)
(*             each with its kind, every parameter, its limits, its parent  *)
(*             (a mux: its inputs in priority order), rail, group and phase *)
(*             configuration, and the system phases in declared order       *)
(*                                                                          *)
(* Input : IOEnv.TRACE_FILE = JSON array of cases [id, what, st, sysname,   *)
(*         params, limits, phases, tree, exc]; output as in TraceSolve.     *)
(***************************************************************************)
EXTENDS Elec, Json, IOUtils

Batch == JsonDeserialize(IOEnv.TRACE_FILE)
VARIABLES ci, verd, stat
vars == <<ci, verd, stat>>

StateOfJ(j) ==
  LET cs    == j.comps
      N     == {cs[i].name : i \in DOMAIN cs}
      At(n) == cs[CHOOSE i \in DOMAIN cs : cs[i].name = n]
  IN [comps |-> [n \in N |-> [cls |-> At(n).cls, pay |-> At(n).pay,
                              rail |-> At(n).rail, group |-> At(n).group]],
      par   |-> [n \in N |-> At(n).par],
      pconf |-> [n \in N |-> At(n).pconf],
      sysph |-> j.sysph,
      anom  |-> j.anom]

Cl(name, app, cond) == <<name, app, IF app THEN cond ELSE TRUE>>

ParamCols == {"vo", "vdrop", "rs", "rt", "eff", "ig", "iq", "ii", "iis", "pwr", "pwrs", "loss"}
LimitCols == {"vi", "vo", "vd", "ii", "io", "pi", "po", "pl", "tr", "tp"}

\* a cell shows the tagged parameter p
Shows(cell, p) ==
  IF p.k = "c" THEN cell.k = "c" /\ DEq(DJ(cell.v), DJ(p.v))
  ELSE IF p.k \in {"t1", "t2"} THEN cell.k = "interp"
  ELSE IF p.k = "l" THEN /\ cell.k = "l" /\ Len(cell.l) = Len(p.v)
                         /\ \A i \in DOMAIN p.v : IsNum(cell.l[i]) /\ DEq(DJ(cell.l[i]), DJ(p.v[i]))
  ELSE IF p.k = "b" THEN cell.k = "b" /\ ((cell.v[1] = 1) <=> p.v)
  ELSE TRUE                                            \* strings / other forms: not judged
Blank(cell) == cell.k = "blank"

\* applicable limit keys of a class (as in TraceSolve!LimKeys)
AppLim(S, n) ==
  LET c == Cls(S, n) IN
  IF c = "Source" THEN {"io", "po", "pl"}
  ELSE IF c = "PLoad" THEN {"vi", "ii", "tr", "tp"}
  ELSE IF c = "ILoad" THEN {"vi", "pi", "tr", "tp"}
  ELSE IF c = "RLoad" THEN {"vi", "ii", "pi", "tr", "tp"}
  ELSE IF c = "Converter" THEN {"vi", "vo", "ii", "io", "pi", "po", "pl", "tr", "tp"}
  ELSE LimitCols
ConfLim(S, n, key) == {i \in DOMAIN S.comps[n].pay.limits : S.comps[n].pay.limits[i][1] = key}
ShowsLimit(cell, S, n, key) ==
  LET I == ConfLim(S, n, key) IN
  IF I = {} THEN Blank(cell)
  ELSE LET lim == S.comps[n].pay.limits[CHOOSE i \in I : TRUE][2] IN
       /\ cell.k = "l" /\ Len(cell.l) = 2
       /\ IsNum(cell.l[1]) /\ IsNum(cell.l[2])
       /\ DEq(DJ(cell.l[1]), DJ(lim[1])) /\ DEq(DJ(cell.l[2]), DJ(lim[2]))

RowsOf(T, n) == {i \in DOMAIN T : T[i].comp = n}
OneRowEach(S, T) == /\ \A n \in Names(S) : Cardinality(RowsOf(T, n)) = 1
                    /\ \A i \in DOMAIN T : T[i].comp \in Names(S)
RowOf(T, n) == T[CHOOSE i \in RowsOf(T, n) : TRUE]

ParamRowOK(S, n, r) ==
  /\ r.type = Kind(S, n)
  /\ \A key \in ParamCols :
        IF key \in DOMAIN Par(S, n) THEN Shows(r.p[key], Par(S, n)[key]) ELSE Blank(r.p[key])
LimitRowOK(S, n, r) ==
  /\ r.type = Kind(S, n)
  /\ \A key \in AppLim(S, n) : ShowsLimit(r.l[key], S, n, key)

-----------------------------------------------------------------------------
(* phases()                                                                 *)
PhaseNames(S) == [i \in DOMAIN S.sysph |-> S.sysph[i].name]
\* the phases a component has a row for, in declared order; <<"N/A">> when none
ListedPhases(S, n) ==
  LET k  == Kind(S, n)
      c  == Conf(S, n)
      ls == SelectSeq(PhaseNames(S), LAMBDA p : ConfHas(c, p))
  IN IF k = "SLOSS" \/ ~HasConf(c) \/ ls = <<>> THEN <<"N/A">> ELSE ls
LoadKey(S, n) == IF Cls(S, n) = "PLoad" THEN "pwr" ELSE IF Cls(S, n) = "RLoad" THEN "rs" ELSE "ii"
PhaseRowsOf(P, n) == SelectSeq(P.rows, LAMBDA r : r.comp = n)
PhaseCellsOK(S, n, r) ==
  IF Kind(S, n) # "LOAD" THEN Blank(r.rs) /\ Blank(r.ii) /\ Blank(r.pwr)
  ELSE LET key == LoadKey(S, n)
           val == IF r.phase = "N/A" THEN PC(S, n, key) ELSE MapVal(Conf(S, n), r.phase)
       IN /\ r[key].k = "c" /\ DEq(DJ(r[key].v), val)
          /\ \A o \in {"rs", "ii", "pwr"} \ {key} : Blank(r[o])
RECURSIVE AncestorSources(_, _)
AncestorSources(S, n) ==
  IF S.par[n] = <<>> THEN {n} ELSE UNION {AncestorSources(S, S.par[n][i]) : i \in DOMAIN S.par[n]}
\* (the rows of one component are compared as a set with the phases it is configured for - one row each, in whatever order
\*  they are emitted; a Domain column, when there is one, names a source that powers the component; without system phases
\*  there is nothing to report: None or an empty table)
PhasesOK(S, P) ==
  IF S.sysph = <<>> THEN P.isnone \/ P.rows = <<>>
  ELSE /\ ~P.isnone
       /\ \A i \in DOMAIN P.rows : P.rows[i].comp \in Names(S)
       /\ \A n \in Names(S) :
            LET rs == PhaseRowsOf(P, n) IN
            /\ {rs[i].phase : i \in DOMAIN rs} = SeqRange(ListedPhases(S, n))
            /\ Len(rs) = Len(ListedPhases(S, n))
            /\ \A i \in DOMAIN rs :
                  /\ rs[i].type = Kind(S, n)
                  /\ PhaseCellsOK(S, n, rs[i])
                  /\ P.hasdomain => rs[i].domain \in AncestorSources(S, n)

-----------------------------------------------------------------------------
(* tree(): a sequence of <<depth, name>> in print order                     *)
\* parent of line i = the nearest earlier line of depth one less
TreeParent(L, i) ==
  LET J == {j \in 1..(i - 1) : L[j][1] = L[i][1] - 1} IN
  IF J = {} THEN 0 ELSE CHOOSE j \in J : \A x \in J : x <= j
TreeEdges(L) == {<<L[TreeParent(L, i)][2], L[i][2]>> : i \in {x \in DOMAIN L : L[x][1] >= 2 /\ TreeParent(L, x) # 0}}
Links(S) == UNION {{<<S.par[n][i], n>> : i \in DOMAIN S.par[n]} : n \in Names(S)}
TreeOK(S, L, sysname) ==
  /\ Len(L) >= 1 /\ L[1][1] = 0 /\ L[1][2] = sysname
  /\ \A i \in 2..Len(L) : L[i][1] >= 1 /\ TreeParent(L, i) # 0
  /\ {L[i][2] : i \in {x \in DOMAIN L : L[x][1] = 1}} = Sources(S)
  /\ TreeEdges(L) = Links(S)
  /\ {L[i][2] : i \in 2..Len(L)} = Names(S)

-----------------------------------------------------------------------------
(* save(): the written document D (flattened by the harness: one entry per    *)
(* component with type, parameters, limits, the parent(s) it is listed under  *)
(* - a mux: its "parents" list in priority order - and its rail / group /      *)
(* phase configuration in the tables of the document)                         *)
DocEntries(Doc, n) == {i \in DOMAIN Doc.comps : Doc.comps[i].name = n}
DefaultLimit(key, lim) ==
  /\ Len(lim) = 2 /\ IsNum(lim[1]) /\ IsNum(lim[2])
  /\ DEq(DJ(lim[1]), IF key = "tp" THEN DE(-1, 6) ELSE DZero) /\ DEq(DJ(lim[2]), DE(1, 6))
DocLimitsOK(S, n, e) ==
  \* every limit the document holds is an applicable one, with the configured value - or the default when none was
  \* configured -, and every configured applicable limit is in the document
  /\ \A i \in DOMAIN e.limits :
        LET key == e.limits[i][1] I == ConfLim(S, n, key) IN
        key \in AppLim(S, n) =>          \* (what the document says about limits that do not apply to the kind is not judged)
           IF I = {} THEN DefaultLimit(key, e.limits[i][2])
           ELSE e.limits[i][2] = S.comps[n].pay.limits[CHOOSE j \in I : TRUE][2]
  /\ \A j \in DOMAIN S.comps[n].pay.limits :
        S.comps[n].pay.limits[j][1] \in AppLim(S, n) => \E i \in DOMAIN e.limits : e.limits[i][1] = S.comps[n].pay.limits[j][1]
DocEntryOK(S, n, e) ==
  /\ e.type = Kind(S, n)
  /\ e.par = S.par[n]                       \* the inputs of a mux in their declared order
  /\ e.rail = S.comps[n].rail
  /\ e.group = S.comps[n].group
  /\ e.pconf = S.pconf[n]
  \* every parameter, tables and resistance lists included (further keys an entry may carry are not judged)
  /\ \A key \in DOMAIN Par(S, n) : key \in DOMAIN e.params /\ e.params[key] = Par(S, n)[key]
SaveDocOK(S, Doc, sysname) ==
  /\ ~Doc.isnone
  /\ Doc.sysname = sysname
  /\ Doc.sysph = S.sysph                      \* the phases in declared order with their durations
  /\ {Doc.comps[i].name : i \in DOMAIN Doc.comps} = Names(S)
  /\ {Doc.tablekeys[i] : i \in DOMAIN Doc.tablekeys} \subseteq Names(S)     \* no entry for a component that is not there
  /\ \A n \in Names(S) :
        /\ Cardinality(DocEntries(Doc, n)) = 1
        /\ LET e == Doc.comps[CHOOSE i \in DocEntries(Doc, n) : TRUE] IN DocEntryOK(S, n, e) /\ DocLimitsOK(S, n, e)

-----------------------------------------------------------------------------
Modelled(S) == WellFormed(S) /\ \A n \in Names(S) : ShapeOK(S, n)

CaseClauses(c, S) ==
  IF ~Modelled(S) THEN << Cl("note.Unmodelled", TRUE, FALSE) >>
  ELSE
  << Cl("C16.ReportsSucceed.Descriptive", TRUE, c.exc = ""),
     Cl("C16.LiveComponents.params", c.exc = "", OneRowEach(S, c.params) /\ OneRowEach(S, c.limits)),
     Cl("C16.ParamsShowConfig", c.exc = "" /\ OneRowEach(S, c.params),
        \A n \in Names(S) : ParamRowOK(S, n, RowOf(c.params, n))),
     Cl("C16.LimitsShowNonDefault", c.exc = "" /\ OneRowEach(S, c.params) /\ OneRowEach(S, c.limits),
        \A n \in Names(S) : LimitRowOK(S, n, RowOf(c.params, n)) /\ LimitRowOK(S, n, RowOf(c.limits, n))),
     Cl("C16.PhasesShowConfig", c.exc = "", PhasesOK(S, c.phases)),
     Cl("C16.TreeShowsStructure", c.exc = "", TreeOK(S, c.tree, c.sysname)),
     \* the saved document describes exactly the system (C16: a report of the final structure; C12: what from_file reads)
     Cl("C16.SaveDocShowsSystem", c.exc = "", SaveDocOK(S, c.savedoc, c.sysname)),
     Cl("C12.SaveDoc", c.exc = "", SaveDocOK(S, c.savedoc, c.sysname)) >>

AllClauseNames == {"C16.ReportsSucceed.Descriptive", "C16.LiveComponents.params", "C16.ParamsShowConfig",
                   "C16.LimitsShowNonDefault", "C16.PhasesShowConfig", "C16.TreeShowsStructure", "C16.SaveDocShowsSystem", "C12.SaveDoc",
                   "note.Unmodelled", "events"}

RECURSIVE SetToSeq(_)
SetToSeq(X) == IF X = {} THEN <<>> ELSE LET x == CHOOSE x \in X : TRUE IN <<x>> \o SetToSeq(X \ {x})
Init == ci = 1 /\ verd = <<>> /\ stat = [c \in AllClauseNames |-> 0]
Step2(c, cls, bad) ==
  /\ verd' = verd \o SetToSeq({[tid |-> c.id, k |-> 1, clause |-> cls[i][1], op |-> c.what, phase |-> ""] : i \in bad})
  /\ stat' = [nm \in AllClauseNames |-> stat[nm] + (IF nm = "events" THEN 1
                 ELSE Cardinality({i \in DOMAIN cls : cls[i][1] = nm /\ cls[i][2]}))]
  /\ ci' = ci + 1
Step1(c, cls) == Step2(c, cls, {i \in DOMAIN cls : cls[i][2] /\ ~cls[i][3]})
Step == ci <= Len(Batch) /\ Step1(Batch[ci], CaseClauses(Batch[ci], StateOfJ(Batch[ci].st)))
Next == Step
Spec == Init /\ [][Next]_vars
Finished == ci > Len(Batch) => JsonSerialize(IOEnv.OUT_FILE, [verd |-> verd, stat |-> stat])
=============================================================================
