SPECIFICATION Spec
CONSTANTS
  Variant = "fixed"
  NameU = {"a", "b", "c", "d"}
  RailU = {"", "r"}
  ClassU = {"RLoss", "PMux"}
  PayU = {0}
  GroupU = {""}
  ConfU <- CfgConf1
  SysPhU <- CfgSysPh1
  MaxRefs = 3
  InitName = "a"
INVARIANT InvConsistent
INVARIANT InvWellFormed
CHECK_DEADLOCK FALSE
