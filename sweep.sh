#!/bin/sh
# sweep.sh <tier> <seed>... : every check at the tier for each seed (false-alarm hunting on the unchanged tree)
tier=$1; shift
for seed in "$@"; do
  for p in C01 C02 C03 C04 C05 C06 C07 C08 C09 C10 C11 C12 C13 C14 C15 C16 C17 C18 C19 C20; do
    out=$(VERIF_SEED=$seed ./check $p --tier $tier 2>&1); rc=$?
    echo "seed=$seed $p rc=$rc $(echo "$out" | tail -1)"
    echo "$out" | grep -E "^VIOLATION|MACHINERY" | head -5
    if [ $rc -ne 0 ]; then mkdir -p keep; cp replays/$p-*.json keep/ 2>/dev/null; fi
  done
done
