#!/bin/sh
# offline setup: parse every specification module with SANY, make directories
set -e
cd /verif
mkdir -p evidence replays
cd spec
T=$(mktemp)
for f in *.tla; do
  java -cp /opt/veriftools/tla/tla2tools.jar:/opt/veriftools/tla/CommunityModules-deps.jar tla2sany.SANY "$f" > "$T" 2>&1 || { cat "$T"; rm -f "$T"; exit 1; }
  if grep -q "rror" "$T"; then cat "$T"; rm -f "$T"; exit 1; fi
done
rm -f "$T"
/venv/bin/python -c "import sysloss, hypothesis"
echo "setup ok"
