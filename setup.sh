#!/bin/sh
# offline setup: parse every specification module with SANY, make directories
set -e
cd /verif
mkdir -p evidence replays
cd spec
T=$(mktemp)
J=$(mktemp -d)          # (SANY unpacks the standard modules into java.io.tmpdir on every start: kept out of /tmp, removed below)
trap 'rm -rf "$T" "$J"' EXIT
for f in *.tla; do
  java -Djava.io.tmpdir="$J" -cp /opt/veriftools/tla/tla2tools.jar:/opt/veriftools/tla/CommunityModules-deps.jar tla2sany.SANY "$f" > "$T" 2>&1 || { cat "$T"; exit 1; }
  if grep -q "rror" "$T"; then cat "$T"; exit 1; fi
done
/venv/bin/python -c "import sysloss, hypothesis"
echo "setup ok"
