"""Exact decimal wire format for numbers handed to TLC.

A finite float x is sent as the shortest decimal that round-trips (repr), i.e. the
exact value (-1)^n * M * 10^e, as the JSON array [n, e, l0, l1, ...] with M in
little-endian base-10^4 limbs (no limb >= 10^4, no trailing zero limb; zero = [0, 0]).
NaN / +-inf become the strings "nan" / "inf"; a blank cell stays "".
"""
from decimal import Decimal
import math

B = 10000


def dec(x):
    """float/int/Decimal/Fraction-free number -> wire list"""
    if isinstance(x, bool):
        raise TypeError("bool is not a number here")
    if isinstance(x, str):
        if x == "":
            return ""
        raise TypeError("string %r is not a number" % (x,))
    if isinstance(x, Decimal):
        d = x
    else:
        xf = float(x)
        if math.isnan(xf):
            return "nan"
        if math.isinf(xf):
            return "inf"
        if isinstance(x, int):
            d = Decimal(x)
        else:
            d = Decimal(repr(xf))
    sign, digits, exp = d.as_tuple()
    m = int("".join(map(str, digits))) if digits else 0
    if m == 0:
        return [0, 0]
    while m % 10 == 0:
        m //= 10
        exp += 1
    limbs = []
    while m:
        limbs.append(m % B)
        m //= B
    return [1 if sign else 0, exp] + limbs


def cell(x):
    """numeric table cell -> always a list of ints: a number in wire form, or a code list
    [2,0] blank / None, [3,0] NaN, [4,0] +-inf, [5,0] any other non-number"""
    import numpy as np

    if x is None or (isinstance(x, str) and x == ""):
        return [2, 0]
    if isinstance(x, (bool, np.bool_)) or isinstance(x, str):
        return [5, 0]
    try:
        w = dec(x.item() if isinstance(x, (np.integer, np.floating)) else x)
    except Exception:
        return [5, 0]
    if w == "nan":
        return [3, 0]
    if w == "inf":
        return [4, 0]
    return w


def pwire(v):
    """component parameter -> tagged record {"k": kind, ...} so that TLC never has to guess a type:
    c constant, t1 1-D table, t2 2-D table, l list of numbers, b bool, s string, x other"""
    import numpy as np

    if isinstance(v, (bool, np.bool_)):
        return {"k": "b", "v": bool(v)}
    if isinstance(v, str):
        return {"k": "s", "v": v}
    if isinstance(v, (int, float, np.integer, np.floating)):
        return {"k": "c", "v": cell(v)}
    if isinstance(v, list):
        if all(isinstance(e, (int, float)) and not isinstance(e, bool) for e in v):
            return {"k": "l", "v": [cell(e) for e in v]}
        return {"k": "x", "v": repr(v)[:60]}
    if isinstance(v, dict) and "vi" in v and "io" in v:
        zk = [k for k in v if k not in ("vi", "io")]
        try:
            if len(zk) == 1:
                z = v[zk[0]]
                return {"k": "t1" if len(v["vi"]) == 1 else "t2", "z": zk[0],
                        "vi": [cell(e) for e in v["vi"]], "io": [cell(e) for e in v["io"]],
                        "f": [[cell(e) for e in row] for row in z]}
        except Exception:
            pass
    return {"k": "x", "v": repr(v)[:60]}


def unpwire(t):
    k = t["k"]
    if k in ("b", "s"):
        return t["v"]
    if k == "c":
        return float(undec(t["v"]))
    if k == "l":
        return [float(undec(e)) for e in t["v"]]
    if k in ("t1", "t2"):
        return {"vi": [float(undec(e)) for e in t["vi"]], "io": [float(undec(e)) for e in t["io"]],
                t["z"]: [[float(undec(e)) for e in row] for row in t["f"]]}
    raise ValueError("cannot rebuild parameter %r" % (t,))


def undec(w):
    """wire list -> Decimal (for self tests / reports)"""
    if isinstance(w, str):
        return w
    n, e = w[0], w[1]
    m = 0
    for k, l in enumerate(w[2:]):
        m += l * (B ** k)
    d = Decimal(m).scaleb(e)
    return -d if n else d


def wire(x):
    """generic python value -> JSON-able value with every number in wire format.
    dicts become records (string keys), lists stay lists, numpy scalars are numbers."""
    import numpy as np

    if isinstance(x, (bool, np.bool_)):
        return bool(x)
    if x is None:
        return "None"
    if isinstance(x, str):
        return x
    if isinstance(x, (int, float, np.integer, np.floating)):
        return dec(x.item() if isinstance(x, (np.integer, np.floating)) else x)
    if isinstance(x, dict):
        return {str(k): wire(v) for k, v in x.items()}
    if isinstance(x, (list, tuple, np.ndarray)):
        return [wire(v) for v in x]
    return "obj:" + type(x).__name__


def unwire(w):
    """inverse of wire() for parameter values: wire number -> float, lists/dicts recursively"""
    if isinstance(w, bool) or isinstance(w, str):
        return w
    if isinstance(w, list):
        if len(w) >= 2 and all(isinstance(x, int) and not isinstance(x, bool) for x in w) and w[0] in (0, 1) \
                and all(0 <= l < B for l in w[2:]):
            return float(undec(w))
        return [unwire(x) for x in w]
    if isinstance(w, dict):
        return {k: unwire(v) for k, v in w.items()}
    return w


_STD_EXC = (KeyError, IndexError, ValueError, TypeError, AttributeError, OverflowError, ZeroDivisionError, RuntimeError,
            ArithmeticError, LookupError, OSError)


def excname(e):
    """the name an exception is recorded under: that of the first standard class it is an instance of (a library is free to
    raise its own subclasses of ValueError / RuntimeError / KeyError; the statements name the standard classes), else its own"""
    for c in _STD_EXC:
        if isinstance(e, c):
            return c.__name__
    return type(e).__name__
