"""C11: executes the constructor cases enumerated by spec/MCCtor.tla."""
from decwire import excname
import warnings

import sysloss.components as C
from decwire import cell

POS = {"vo": 3.3, "rs": 0.21, "pwr": 0.35, "pwrs": 0.002, "rt": 7.5, "ii": 0.04, "iis": 0.0003, "vdrop": 0.27, "eff": 0.86,
       "iq": 0.0011, "ig": 0.0007}
# the tables of all three tabulated parameters are made of the SAME numbers (legal as an efficiency, a drop and a ground
# current alike), so that the illegal forms of one quantity coincide number by number with legal forms of another
TABZ = {"eff": [0.21, 0.3, 0.41], "vdrop": [0.21, 0.3, 0.41], "ig": [0.21, 0.3, 0.41]}


def table(key, form):
    z = TABZ[key]
    t1 = {"vi": [5.0], "io": [0.1, 0.5, 0.9], key: [list(z)]}
    t2 = {"vi": [2.5, 12.0], "io": [0.1, 0.5, 0.9], key: [list(z), [x * 0.9 for x in z]]}
    if form == "t1":
        return t1
    if form == "t2":
        return t2
    if form == "t_missing":
        t1.pop("io")
        return t1
    if form == "t_flat":
        t1[key] = list(z)
        return t1
    if form == "t_ragged":
        t2[key] = [list(z), z[:2]]
        return t2
    if form == "t_mis_io":
        t1["io"] = [0.1, 0.5]
        return t1
    if form == "t_mis_vi":
        t1["vi"] = [2.5, 12.0]
        return t1
    if form == "t_nonmono":
        t1["io"] = [0.5, 0.1, 0.9]
        return t1
    if form == "t_repeat":
        t1["io"] = [0.1, 0.1, 0.9]
        return t1
    if form == "t_negentry":
        t2[key][1][1] = -t2[key][1][1]
        return t2
    if form == "t1_negentry":
        t1[key][0][1] = -t1[key][0][1]
        return t1
    if form == "t1_neg":
        t1[key] = [[-x for x in row] for row in t1[key]]
        return t1
    if form == "t2_neg":
        t2[key] = [[-x for x in row] for row in t2[key]]
        return t2
    if form == "t2_negaxis":
        t2["vi"] = [-v for v in t2["vi"]]
        return t2
    if form == "t_zeroentry":
        t2[key][0][2] = 0.0
        return t2
    if form == "t_gt1entry":
        t2[key][1][0] = 1.2
        return t2
    raise KeyError(form)


def value(kind, key, form, a):
    if key == "limits":
        return {"ok": {"vi": [0.5, 40.0], "io": [0.0, 1.5]}, "notlist": {"vi": 5.0}, "len3": {"vi": [0.0, 1.0, 2.0]},
                "nonnum": {"vi": [0.0, "x"]}}[form]
    if key == "loss":
        return form == "true"
    if form.startswith("t"):
        return table(key, form)
    if form == "pos":
        return POS[key]
    if form == "neg":
        return -POS[key]
    if form == "zero":
        return 0.0
    if form == "int":
        return 1 if key == "eff" else 2
    if form == "one":
        return 1.0
    if form == "gt1":
        return 1.5
    if form in ("small", "negsmall", "equal", "larger", "neglarger"):
        vo = abs(value(kind, "vo", a["vo"], a))
        return {"small": 0.3, "negsmall": -0.3, "equal": vo, "larger": vo + 1.0, "neglarger": -(vo + 1.0)}[form]
    if form == "list":
        return [0.1, 0.2, 0.3, 0.4]
    if form == "list_neg":
        return [-0.1, 0.2, -0.3, 0.4]
    if form == "list_str":
        return [0.1, "a"]
    if form == "str":
        return "abc"
    raise KeyError(form)


def magnitudes(kw):
    """the same arguments with every negative number replaced by its magnitude (C11.Normalises twin)"""
    out = {}
    for k, v in kw.items():
        if k == "vo" or k == "limits":
            out[k] = v
        elif isinstance(v, (int, float)) and not isinstance(v, bool):
            out[k] = abs(v)
        elif isinstance(v, list) and all(isinstance(x, (int, float)) for x in v):
            out[k] = [abs(x) for x in v]
        elif isinstance(v, dict) and k != "limits":
            out[k] = {kk: ([[abs(x) for x in row] for row in vv] if vv and isinstance(vv[0], list) else [abs(x) for x in vv])
                      for kk, vv in v.items()}
        else:
            out[k] = v
    return out


def run_case(st, cid):
    kind, a = st["kind"], st["a"]
    kw = {}
    for k, f in a.items():
        if f != "absent":
            kw[k] = value(kind, k, f, a)
    case = {"id": cid, "kind": kind, "a": dict(a), "outcome": "ok", "stored": [], "kw": kw}
    comp = None
    with warnings.catch_warnings():
        warnings.simplefilter("ignore")
        try:
            comp = getattr(C, kind)("X", **{k: (dict(v) if isinstance(v, dict) else v) for k, v in kw.items()})
        except Exception as e:
            case["outcome"] = excname(e)
    if comp is not None:
        for k, v in kw.items():
            if isinstance(v, (int, float)) and not isinstance(v, bool) and k in comp._params \
                    and isinstance(comp._params[k], (int, float)):
                case["stored"].append({"key": k, "given": cell(v), "stored": cell(comp._params[k])})
    return case, comp


def probe_system(comp, kind, vsrc=12.0):
    from sysloss.system import System
    with warnings.catch_warnings():
        warnings.simplefilter("ignore")
        if kind == "Source":
            s = System("p", comp)
            s.add_comp("X", comp=C.ILoad("l", ii=0.1))
            s.add_comp("X", comp=C.RLoad("r", rs=200.0))
        else:
            s = System("p", C.Source("s", vo=vsrc, rs=0.05))
            if kind == "PMux":
                s.add_source(C.Source("s2", vo=vsrc * 0.8))
                s.add_comp(["s", "s2"], comp=comp)
            else:
                s.add_comp("s", comp=comp)
            if kind not in ("PLoad", "ILoad", "RLoad"):
                s.add_comp("X", comp=C.ILoad("l", ii=0.1))
                s.add_comp("X", comp=C.PLoad("p", pwr=0.2))
    return s
