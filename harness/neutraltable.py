"""Prints the markdown table of the behaviour-preserving changes (neutral/*/meta.json): what was changed and the latest
verdict of every check that was run against it (every check must exit 0)."""
import glob
import json
import os

ROOT = os.path.dirname(os.path.dirname(os.path.abspath(__file__)))
print("| id | change | checks run (latest verdicts) | first contact |")
print("|---|---|---|---|")
for f in sorted(glob.glob(os.path.join(ROOT, "neutral", "*", "meta.json"))):
    m = json.load(open(f))
    nid = f.split(os.sep)[-2]
    last, first = {}, {}
    for r in m.get("runs", []):
        for p, v in r["checks"].items():
            first.setdefault(p, v)
            last[p] = v
    bad_first = sorted(p for p, v in first.items() if v["exit"] != 0)
    verdict = " ".join("%s:%s" % (p, {0: "ok", 1: "ALARM", 2: "machinery"}.get(v["exit"], "?")) for p, v in sorted(last.items()))
    print("| %s | %s | %s | %s |" % (nid, m.get("summary", "").replace("|", "/").replace("\n", " ")[:220], verdict or "-",
                                    ("alarm / failure in " + ", ".join(bad_first)) if bad_first else "silent"))
