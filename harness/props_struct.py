"""C12 (save / from_file round trip), C16 (history independence), C17 (read-only analyses):
two reports that must agree are handed to TLC as twin cases (spec/Twin.tla)."""
from decwire import excname
import json
import os
import tempfile
import warnings

import tlc
import gen
import drv_solve
import reports
from check import Result, conclude
from props_solve import build_behaviours, struct_digest
from project import node_of, project

REGISTRY = {}


def validate_twins(ctx, res, cases):
    res.add_traces([{"tid": c["id"], "kind": "solve", "events": [dict(c, st=c.get("st"))]} for c in cases])
    slim = [{k: v for k, v in c.items() if k not in ("canon_a", "canon_b", "st")} for c in cases]
    batches = [slim[i::tlc.NCPU] for i in range(tlc.NCPU) if slim[i::tlc.NCPU]]
    verd, stat, states = tlc.validate("Twin.tla", "Twin.cfg", batches, ctx.work)
    res.verd += verd
    for k, v in stat.items():
        res.stat[k] = res.stat.get(k, 0) + v
    res.extra["trace_validation_states"] = res.extra.get("trace_validation_states", 0) + states


def roundtrip(s):
    fd, path = tempfile.mkstemp(suffix=".json", prefix="sl_rt_")
    os.close(fd)
    try:
        s.save(path)
        from sysloss.system import System
        with warnings.catch_warnings():
            warnings.simplefilter("ignore")
            return System.from_file(path)
    finally:
        os.unlink(path)


def kind_showcase(rng):
    """one system in which every parameter of every kind is non-default and distinct, one with defaults"""
    from sysloss.system import System
    from sysloss.components import (Source, PLoad, ILoad, RLoad, RLoss, VLoss, Converter, LinReg, PSwitch, PMux, Rectifier)
    lim = {"vi": [0.5, 50.0], "tp": [-20.0, 90.0], "tr": [0.0, 55.0]}
    out = []
    for nondef in (True, False):
        s = System("showcase", Source("S1", vo=24.0, **(dict(rs=0.11, limits={"io": [0.0, 2.0]}) if nondef else {})),
                   **(dict(group="gs", rail="R24") if nondef else {}))
        s.add_source(Source("S2", vo=-9.0))
        k = (lambda **kw: kw) if nondef else (lambda **kw: {})
        s.add_comp("S1", comp=Converter("CV", vo=5.0, eff=0.87, **k(iq=1.1e-3, iis=2.2e-6, rt=3.3, limits=lim)), **k(rail="R5", group="g1"))
        s.add_comp("S1", comp=Converter("CT", vo=3.3, eff={"vi": [12.0, 24.0], "io": [0.01, 0.1, 0.5], "eff": [[0.6, 0.8, 0.9], [0.55, 0.75, 0.85]]}))
        s.add_comp("CV", comp=LinReg("LR", vo=3.0, **k(vdrop=0.31, ig=1.7e-3, iis=1.3e-6, rt=4.4, limits=lim)), **k(rail="R3"))
        s.add_comp("CV", comp=LinReg("LT", vo=2.5, ig={"vi": [5.0], "io": [0.0, 0.05, 0.1], "ig": [[2.0e-6, 0.5e-3, 0.85e-3]]}))
        s.add_comp("CV", comp=PSwitch("SW", **k(rs=0.12, ig=1.2e-5, iis=1.1e-6, rt=5.5, limits=lim)))
        s.add_comp("S1", comp=RLoss("RL", rs=0.21, **k(rt=6.6, limits=lim)))
        s.add_comp("RL", comp=VLoss("VL", vdrop=0.33, **k(rt=7.7, limits=lim)))
        s.add_comp("RL", comp=VLoss("VT", vdrop={"vi": [2.5, 30.0], "io": [0.1, 0.5, 0.9], "vdrop": [[0.23, 0.34, 0.477], [0.27, 0.39, 0.51]]}))
        s.add_comp("VL", comp=Rectifier("RD", vdrop=0.41, **k(rt=8.8, limits=lim)))
        s.add_comp("VL", comp=Rectifier("RM", **k(rs=0.013, ig=1.4e-5, iq=1.5e-6, rt=9.9, limits=lim)))
        s.add_comp(["SW", "S2", "LR"], comp=PMux("MX", **k(rs=[0.1, 0.2, 0.3], ig=1.6e-5, iis=1.7e-6, rt=1.2, limits=lim)), **k(rail="RMX", group="g2"))
        s.add_comp("MX", comp=PLoad("PL", pwr=0.2, **k(pwrs=1e-4, rt=11.0, loss=True, limits=lim)), **k(group="g2"))
        s.add_comp("RD", comp=ILoad("IL", ii=0.03, **k(iis=2e-5, rt=12.0, loss=True, limits=lim)))
        s.add_comp("RM", comp=RLoad("RR", rs=120.0, **k(rt=13.0, loss=True, limits=lim)))
        s.add_comp("LR", comp=PLoad("P2", pwr=0.05))
        s.add_comp("CT", comp=ILoad("I2", ii=0.07))
        s.add_comp("LT", comp=RLoad("R2", rs=80.0))
        s.add_comp("VT", comp=ILoad("I3", ii=0.3))
        if nondef:
            s.set_sys_phases({"run": 10.0, "idle": 200.0, "off": 3600.0})
            s.set_comp_phases("CV", ["run", "idle"])
            s.set_comp_phases("S2", ["off"])
            s.set_comp_phases("MX", ["run", "idle", "off"])
            s.set_comp_phases("PL", {"run": 0.3, "idle": 0.01})
            s.set_comp_phases("IL", {"run": 0.04})
            s.set_comp_phases("RR", {"idle": 1000.0})
            s.set_comp_phases("SW", ["run"])
            s.set_comp_phases("LR", ["run", "off"])
        out.append(s)
    return out


def run_c12(ctx):
    import sysloss
    from sysloss.system import System
    res = Result()
    rng = ctx.rng
    n = 120 if ctx.quick else 2500
    behs = build_behaviours(ctx, n + 10)
    systems = kind_showcase(rng)
    for st in behs[:n]:
        g = gen.Gen(rng, neg=0.2, tables=0.3, zero_src=0.1, limits=gen.applicable_limits)
        systems.append(drv_solve.build_system(st, g, rng))
    # systems left behind by edit histories (freed and re-used node indices, renamed and re-linked components, edited mux
    # inputs): "for any system S" includes them
    import drv_edit
    hn, hd = (60, 14) if ctx.quick else (1200, 30)
    hb, _ = tlc.run_sim("SimEdit.tla", "SimEdit.cfg", ctx.work, num=hn, depth=hd, seed=ctx.seed + 12)
    mb, _ = tlc.run_sim("SimEdit.tla", "SimMux.cfg", ctx.work, num=hn // 3, depth=hd, seed=ctx.seed + 13)
    rb, _ = tlc.run_sim("SimEdit.tla", "SimReuse.cfg", ctx.work, num=hn // 2, depth=13, seed=ctx.seed + 14)
    mb = mb + rb
    for states in hb + mb:
        sh = drv_edit.new_system()
        for st in states:
            drv_edit.do_call(sh, st["act"]["op"], st["act"]["a"])
        systems.append(sh)
    res.extra["history_built_systems"] = len(hb) + len(mb)
    # hand-built systems and hand-built edit histories (harness/scenarios.py)
    import scenarios
    for name, s_or_exc, kw in scenarios.build_all() + scenarios.build_histories():
        if not isinstance(s_or_exc, Exception):
            systems.append(s_or_exc)
    cases, structs = [], set()
    # the document save() writes, as a relation to the abstract state (TraceReports!SaveDocOK, clause C12.SaveDoc): what
    # from_file will read is the system itself - an error that save() and from_file() share is invisible to the round trip
    validate_reports(ctx, res, [reports.report_case(s, i, "system %d" % i) for i, s in enumerate(systems)])
    for i, s in enumerate(systems):
        s2, exc = None, None
        try:
            s2 = roundtrip(s)
        except Exception as e:
            exc = excname(e)
        st = project(s)
        structs.add(struct_digest(st))
        if s2 is None:
            cases.append({"id": len(cases), "clause": "C12.Loads", "kind": "digest", "exact": True, "what": "from_file(save()) raised " + exc,
                          "a": "ok", "b": "exc:" + exc, "outcome": "", "exc": "", "st": st})
            continue
        c = reports.state_case("C12.State", s, s2, "system %d" % i, len(cases))
        c["st"] = st
        cases.append(c)
        kw = dict(ta=rng.choice([25.0, 60.0]), energy=rng.random() < 0.3)
        tw = reports.twin_cases("C12", reports.all_reports(s, kw), reports.all_reports(s2, kw), False, "system %d" % i, len(cases),
                                only=("Solve", "RailRep", "Params", "Phases", "Limits"))
        for t in tw:
            t["st"] = st
        cases += tw
    # version gate
    inst = [int(x) for x in sysloss.__version__.split(".")[:3]]
    s = systems[0]
    fd, path = tempfile.mkstemp(suffix=".json", prefix="sl_v_")
    os.close(fd)
    try:
        s.save(path)
        doc = json.load(open(path))
        M, m, p = inst
        for ver in [(M, m, p), (M, m, p + 1), (M, m + 1, 0), (M + 1, 0, 0), (M, m, max(p - 1, 0)), (M, max(m - 1, 0), p + 5),
                    (max(M - 1, 0), m + 7, p), (M, m + 1, max(p - 1, 0)), (M + 1, max(m - 1, 0), 0), (0, 9, 0), (M, m, p + 10)]:
            doc["system"]["version"] = "%d.%d.%d" % ver
            json.dump(doc, open(path, "w"))
            c = {"id": len(cases), "clause": "C12.VersionGate", "kind": "version", "exact": True, "what": "file version %d.%d.%d" % ver,
                 "a": list(ver), "b": inst, "outcome": "ok", "exc": "", "st": None}
            try:
                with warnings.catch_warnings():
                    warnings.simplefilter("ignore")
                    System.from_file(path)
            except Exception as e:
                c["outcome"], c["exc"] = "exc", excname(e)
            cases.append(c)
    finally:
        os.unlink(path)
    validate_twins(ctx, res, cases)
    res.extra["systems"] = len(systems)
    res.extra["distinct_nontrivial"] = len(structs)
    res.samples = [{"components": [(c["name"], c["cls"], c["par"]) for c in cs["st"]["comps"]]} for cs in cases[:40:20] if cs.get("st")]
    res.assumptions = ["limits are compared on the applicable keys of the kind (the document stores only those)",
                       "reports compared as row sets, exact class (1e-9 relative) since the reloaded system is built in document order"]
    return conclude("C12", ctx, res, rule="numeric instantiations (tables, limits, rails, groups, phases, mux, several sources, both rectifier modes) of "
                    "TLC-generated structures plus a showcase with every parameter of every kind non-default/default: the projected state of from_file(save(S)) "
                    "must equal that of S and solve/rail_rep/params/limits/phases must agree; files stamped with versions around the installed one must be refused iff newer")


REGISTRY["C12"] = {"run": run_c12, "replay": lambda ctx, path: 2}


# ---------------------------------------------------------------------------------------------
# C16: results depend on the final structure only
def _names_in_reports(s, st):
    """component names each report lists (canonical, sorted) - compared with the abstract state by TLC"""
    import pandas as pd
    out = {}
    names = sorted(c["name"] for c in st["comps"])

    def run(key, fn):
        try:
            with warnings.catch_warnings():
                warnings.simplefilter("ignore")
                out[key] = fn()
        except Exception as e:
            if isinstance(e, drv_solve.HarnessError) or drv_solve.raised_by_harness(e):
                raise drv_solve.HarnessError("%s: %s: %s" % (key, type(e).__name__, e)) from e
            out[key] = ["exc:" + excname(e)]
    run("solve", lambda: sorted(set(s.solve()[lambda d: d["Type"] != ""]["Component"])))
    run("params", lambda: sorted(s.params()["Component"]))
    run("limits", lambda: sorted(s.limits()["Component"]))
    if st["sysph"]:
        run("phases", lambda: sorted(set(s.phases()["Component"])))
    run("save", lambda: sorted(_doc_names(reports.save_doc(s))))
    run("tree", lambda: sorted(set(reports.tree_lines(s)) - {s._g.attrs["name"]}))
    return names, out


def _doc_names(doc):
    out = []
    for k, v in doc.items():
        if k == "system":
            continue
        out.append(k)
        for p, ch in v.get("childs", {}).items():
            out += [c["params"]["name"] for c in ch]
    return out


REPORT_CASES = []      # descriptive-report cases of the current C16 run (TraceReports.tla)


def validate_reports(ctx, res, cases):
    if not cases:
        return
    for c in cases:
        c["id"] = 3 * 10 ** 6 + c["id"]
    res.add_traces([{"tid": c["id"], "kind": "solve", "events": [c]} for c in cases])
    batches = [cases[i::tlc.NCPU] for i in range(tlc.NCPU) if cases[i::tlc.NCPU]]
    verd, stat, states = tlc.validate("TraceReports.tla", "TraceReports.cfg", batches, ctx.work)
    res.verd += verd
    for k, v in stat.items():
        if k != "events":
            res.stat[k] = res.stat.get(k, 0) + v
    res.extra["trace_validation_states"] = res.extra.get("trace_validation_states", 0) + states
    res.extra["descriptive_report_cases"] = len(cases)


def c16_cases(s, cases, what, rng, rec=None):
    from rebuild import rebuild
    REPORT_CASES.append(reports.report_case(s, len(REPORT_CASES), what))
    st = project(s)
    id0 = len(cases)
    ra = reports.all_reports(s)
    for name, (kind, val) in ra.items():
        bad = (kind == "table" and val["isnone"] and val["cols"] and val["cols"][0].startswith("exc:")) or \
              (kind == "digest" and isinstance(val, str) and val.startswith("exc:"))
        cases.append({"id": len(cases), "clause": "C16.ReportsSucceed." + name, "kind": "digest", "exact": True, "what": what,
                      "a": "ok", "b": (val["cols"][0] if kind == "table" else val) if bad else "ok", "outcome": "", "exc": "", "st": st})
    names, listed = _names_in_reports(s, st)
    for key, got in listed.items():
        cases.append({"id": len(cases), "clause": "C16.LiveComponents." + key, "kind": "digest", "exact": True, "what": what,
                      "a": names, "b": got, "outcome": "", "exc": "", "st": st})
    if any(a[0] == "name" for a in st["anom"]):
        return
    try:
        fresh = rebuild(st)
        perm = {n: rng.random() for n in names}
        fresh2 = rebuild(st, order=lambda n: perm[n])
    except Exception as e:
        cases.append({"id": len(cases), "clause": "C16.SameAsFresh.Build", "kind": "digest", "exact": True, "what": what,
                      "a": "ok", "b": "exc:" + excname(e) + ":" + str(e)[:80], "outcome": "", "exc": "", "st": st})
        return
    rb, rc = reports.all_reports(fresh), reports.all_reports(fresh2)
    for t in reports.twin_cases("C16.SameAsFresh", ra, rb, False, what, len(cases)) + \
            reports.twin_cases("C16.OrderIndependent", rb, rc, False, what, len(cases) + 10):
        t["id"] = len(cases)
        t["st"] = st
        cases.append(t)


def run_c16(ctx):
    import props_edit
    import drv_edit
    from record import Recorder
    del REPORT_CASES[:]
    res = Result()
    rng = ctx.rng
    cases = []
    q = ctx.quick
    rec = Recorder()
    rec.install()
    try:
        num, depth = (160, 14) if q else (2500, 30)
        behs, _ = tlc.run_sim("SimEdit.tla", "SimEdit.cfg", ctx.work, num=num, depth=depth, seed=ctx.seed + 7)

        def at_end(s):
            with rec.paused():
                c16_cases(s, cases, "history %d" % len(rec.traces), rng)
        def mid(s):
            # an analysis in the middle of the history (caches, derived tables) must not show in the final reports
            with rec.paused():
                try:
                    import contextlib
                    import io
                    with warnings.catch_warnings(), contextlib.redirect_stdout(io.StringIO()):
                        warnings.simplefilter("ignore")
                        rng.choice([s.solve, s.params, s.tree, s.phases])()
                except Exception:
                    pass
        mb, _ = tlc.run_sim("SimEdit.tla", "SimMux.cfg", ctx.work, num=num // 4, depth=depth, seed=ctx.seed + 8)
        rb, _ = tlc.run_sim("SimEdit.tla", "SimReuse.cfg", ctx.work, num=num // 4, depth=13, seed=ctx.seed + 9)
        mb = mb + rb
        n = drv_edit.replay_sim(rec, behs + mb, analyses=at_end, mid=mid, rng=rng)
        res.extra["sim_replay"] = {"behaviours": len(behs) + len(mb), "depth": depth, "calls": n}
        # every state of the bounded edit graph, reached along a shortest accepted history
        inits, edges, nodes, cnt = tlc.run_dump("MCEdit.tla", "MCEdit2.cfg" if q else "MCEditQ.cfg", ctx.work)
        seen = [0]

        def at_state(s):
            seen[0] += 1
            if q and seen[0] % 2:
                return
            with rec.paused():
                c16_cases(s, cases, "graph state %d" % seen[0], rng)
        gst = drv_edit.replay_graph(rec, inits, edges, nodes, rng, max_states=None, rej_per_state=0, at_state=at_state,
                                    acc_only_paths=True)
        res.extra["graph_replay"] = gst
        del edges, nodes
        # hand-built edit histories with analyses in between (harness/scenarios.py)
        import scenarios
        with rec.paused():
            for name, s_or_exc, kw in scenarios.build_histories():
                if isinstance(s_or_exc, Exception):
                    cases.append({"id": len(cases), "clause": "C16.ReportsSucceed.Build", "kind": "digest", "exact": True, "what": "scenario " + name,
                                  "a": "ok", "b": "exc:" + type(s_or_exc).__name__, "outcome": "", "exc": "", "st": None})
                else:
                    c16_cases(s_or_exc, cases, "scenario " + name, rng)
    finally:
        rec.uninstall()
    traces = rec.dump()
    res.add_traces(traces)
    verd, stat, states = tlc.validate("TraceEdit.tla", "TraceEdit.cfg", tlc.split(traces, tlc.NCPU), ctx.work)
    res.verd, res.stat = verd, stat
    res.extra["trace_validation_states"] = states
    for c in cases:
        c["id"] = 10 ** 6 + c["id"]
    validate_twins(ctx, res, cases)
    # params() / limits() / phases() / tree() as relations to the abstract state: the history-built systems above and
    # numeric systems with tables, resistance lists, limits (applicable and not), phases and several sources
    behs = build_behaviours(ctx, 70 if q else 1500, depths=(4, 7, 10, 13))
    for st in behs:
        try:
            sn = drv_solve.build_system(st, gen.Gen(rng, neg=0.2, tables=0.4, limits=gen.random_limits), rng)
        except drv_solve.BuildFailure:
            continue
        REPORT_CASES.append(reports.report_case(sn, len(REPORT_CASES), "generated numeric system"))
    validate_reports(ctx, res, list(REPORT_CASES))
    res.extra["distinct_nontrivial"] = len({struct_digest(c["st"]) for c in cases if c.get("st")})
    res.samples = [{"what": c["what"], "clause": c["clause"]} for c in cases[:3]]
    res.assumptions = ["reports of the history-built system are compared with those of a system built from the projected state through the public API "
                       "(canonical order and a random permutation of source / sibling order); rows as sets, exact class",
                       "'final structure' is the structure the documented effect of each edit yields (SysTree.tla)"]
    return conclude("C16", ctx, res, rule="simulated edit histories (11 classes, renames, deletions with and without children, re-adding, edits around a mux) and every state "
                    "of the bounded edit graph: every report must succeed, list exactly the live components and equal the reports of a freshly built system; "
                    "C16.Structure is judged by TraceEdit on every accepted edit")


REGISTRY["C16"] = {"run": run_c16, "replay": lambda ctx, path: __import__("props_edit").replay_edit(ctx, path)}


# ---------------------------------------------------------------------------------------------
# C18 / C17: batt_life
def validate_batt(ctx, res, cases):
    import drv_batt  # noqa
    res.add_traces([{"tid": c["id"], "kind": "solve", "events": [c]} for c in cases])
    slim = [{k: v for k, v in c.items() if k not in ("st", "solve_cases")} for c in cases]
    batches = [slim[i::tlc.NCPU] for i in range(tlc.NCPU) if slim[i::tlc.NCPU]]
    verd, stat, states = tlc.validate("TraceBatt.tla", "TraceBatt.cfg", batches, ctx.work)
    res.verd += verd
    for k, v in stat.items():
        res.stat[k] = res.stat.get(k, 0) + v
    res.extra["trace_validation_states"] = res.extra.get("trace_validation_states", 0) + states


def _mc_batt(ctx, res):
    import re
    for cfg, name in (("MCBatt.cfg", "batt_life machine, 3 phases"), ("MCBatt0.cfg", "batt_life machine, no phases"),
                      ("MCBattN.cfg", "batt_life on a non-source")):
        m = tlc.run_mc("Batt.tla", cfg, ctx.work, workers=4)
        m["name"] = name
        res.mc.append(m)
        if not m["ok"]:
            if re.search(r"Invariant \w+ is violated", m["out"]):
                res.mc_failures.append(m["out"][m["out"].find("Error:"):][:4000])
            else:
                raise tlc.TLCError(m["out"][-2000:])


def batt_cases(ctx, n_sys, faults):
    """battery runs on generated multi-source systems with 0 / 2 / 3 phases"""
    import drv_batt
    rng = ctx.rng
    behs = build_behaviours(ctx, n_sys * 3 + 10, depths=(4, 6, 8))
    rng.shuffle(behs)
    cases = []
    n = 0
    # a fixed scenario first: the system is analysed, then a load is moved from the other source to the battery (the freed
    # node index is re-used), then batt_life must step the battery with the current of the EDITED system
    try:
        import sysloss.components as C
        from sysloss.system import System
        with warnings.catch_warnings():
            warnings.simplefilter("ignore")
            s0 = System("moved", C.Source("bat", vo=3.7, rs=0.1))
            s0.add_source(C.Source("aux", vo=5.0))
            s0.add_comp("bat", comp=C.LinReg("ldo", vo=3.0, vdrop=0.2, ig=1e-5))
            s0.add_comp("ldo", comp=C.ILoad("mcu", ii=0.02))
            s0.add_comp("aux", comp=C.PLoad("radio", pwr=0.4))
            s0.solve()
            s0.del_comp("radio")
            s0.add_comp("ldo", comp=C.PLoad("radio", pwr=0.4))
        for f in ([None] + ([("deplete", 2)] if faults else [])):
            p, d = drv_batt.numeric_model("sag", 0.05, 3.9, 0.15, rng)
            cases.append(drv_batt.run_batt(copy_system(s0), "bat", 3.0, p, d, len(cases), fail_at=f))
    except Exception:
        pass
    # fixed scenarios: the battery addressed through its rail name, where that rail name is contained in the rail names of
    # components declared before it (another source; a regulator) - a reference resolves by equality, never by containment
    try:
        with warnings.catch_warnings():
            warnings.simplefilter("ignore")
            for first_is_source in (True, False):
                if first_is_source:
                    s1 = System("rails", C.Source("rtc", vo=3.0, rs=0.2), rail="VBAT_RTC")
                    s1.add_comp("VBAT_RTC", comp=C.ILoad("clock", ii=2e-3))
                    s1.add_source(C.Source("cell", vo=3.8, rs=0.05), rail="VBAT")
                else:
                    s1 = System("rails", C.Source("usb", vo=5.0))
                    s1.add_comp("usb", comp=C.Converter("pre", vo=4.2, eff=0.9), rail="VBAT_SW")
                    s1.add_comp("VBAT_SW", comp=C.ILoad("led", ii=5e-3))
                    s1.add_source(C.Source("cell", vo=3.8, rs=0.05), rail="VBAT")
                s1.add_comp("VBAT", comp=C.LinReg("ldo", vo=3.0, vdrop=0.2, ig=1e-5), rail="V3")
                s1.add_comp("V3", comp=C.PLoad("radio", pwr=0.15))
                for f in ([None] + ([("deplete", 1)] if faults else [])):
                    p, d = drv_batt.numeric_model("sag", 0.02, 3.9, 0.1, rng)
                    cases.append(drv_batt.run_batt(copy_system(s1), "VBAT", 3.0, p, d, len(cases), fail_at=f))
    except Exception:
        pass
    # fixed scenarios: a battery with a flat voltage whose impedance rises (the same voltage is seen again with another
    # impedance), feeding loads whose current depends on the supply impedance - without and with phases
    try:
        with warnings.catch_warnings():
            warnings.simplefilter("ignore")
            for with_phases in (False, True):
                s2 = System("plateau", C.Source("cell", vo=3.7, rs=0.1))
                s2.add_comp("cell", comp=C.Converter("buck", vo=1.8, eff=0.85, iq=1e-5))
                s2.add_comp("buck", comp=C.PLoad("soc", pwr=0.4, pwrs=0.001))
                s2.add_comp("cell", comp=C.RLoad("bleed", rs=200.0))
                if with_phases:
                    s2.set_sys_phases({"on": 30.0, "idle": 120.0})
                    s2.set_comp_phases("soc", {"on": 0.6})
                for f in ([None] + ([("deplete", 3)] if faults else [])):
                    p, d = drv_batt.numeric_model("plateau", 0.004 if with_phases else 0.05, 3.6, 0.3, rng)
                    cases.append(drv_batt.run_batt(copy_system(s2), "cell", 2.0, p, d, len(cases), fail_at=f,
                                                   ref_every=(1 if with_phases else 23)))
    except Exception:
        pass
    for st in behs:
        if n >= n_sys:
            break
        g = gen.Gen(rng, neg=0.0, tables=0.15)
        s = drv_solve.build_system(st, g, rng)
        srcs = [c for c in project(s)["comps"] if c["cls"] == "Source"]
        bat = rng.choice(srcs)["name"]
        try:
            with warnings.catch_warnings():
                warnings.simplefilter("ignore")
                df = s.solve()
            ib = max(float(x) for x in df[df["Component"] == bat]["Iout (A)"].values)
        except Exception:
            continue
        if not (ib > 1e-7):
            continue
        if rng.random() < 0.5:
            # the system was analysed (above) and is then edited: batt_life must see the edited system
            try:
                import props_solve
                r = props_solve.apply_some_edit(s, rng)
                if r is None or r["exc"] is not None or project(s)["anom"]:
                    continue
                if bat not in [c["name"] for c in project(s)["comps"]]:
                    bat = ("rn_" + bat) if ("rn_" + bat) in [c["name"] for c in project(s)["comps"]] else None
                    if bat is None:
                        continue
                with warnings.catch_warnings():
                    warnings.simplefilter("ignore")
                    df = s.solve()
                ib = max(float(x) for x in df[df["Component"] == bat]["Iout (A)"].values)
            except drv_solve.HarnessError:
                raise
            except Exception:
                continue
            if not (ib > 1e-7):
                continue        # the battery no longer supplies anything: its capacity would never run out (outside C18)
        n += 1
        v0 = abs(s._g[node_of(s, bat)]._params["vo"]) * rng.uniform(0.9, 1.15)
        r0 = rng.choice([0.0, 0.05, 0.3])
        phases = list(s._g.attrs["phases"].values())
        # size the capacity so that the run has 5..60 steps
        steps = rng.randint(5, 60)
        if phases:
            cap0 = ib * (sum(phases) / len(phases)) * steps / 3600.0
        else:
            cap0 = rng.uniform(0.01, 5.0) if rng.random() > 0.15 else rng.uniform(100.0, 3000.0)     # (also >= 100 Ah)
        kind = rng.choice(["const", "sag", "ir", "plateau"])
        cutoff = v0 * rng.choice([0.0, 0.5, 0.85, 0.95])
        if rng.random() < 0.25:
            # the battery Source is declared with 0 V: batt_life takes voltage and impedance from the battery model
            from decwire import cell
            from rebuild import rebuild
            st2 = project(s)
            for c in st2["comps"]:
                if c["name"] == bat:
                    c["pay"]["params"]["vo"] = {"k": "c", "v": cell(0.0)}
            try:
                s = rebuild(st2)
            except Exception:
                pass

        r1 = rng.random()
        if r1 < 0.08:
            cutoff = v0 * rng.choice([1.0, 1.2])      # the probed battery is already at / below the cut-off: nothing is solved or stepped
        elif r1 < 0.12:
            cap0 = 0.0                                # ... or already empty
        if not s._g.attrs["rails"].get(bat, "") and rng.random() < 0.5:
            # the battery gets a rail name (the system is rebuilt from its projection with that rail)
            try:
                from rebuild import rebuild
                st3 = project(s)
                for c in st3["comps"]:
                    if c["name"] == bat:
                        c["rail"] = "RBAT"
                    elif c["cls"] == "Source" and not c["rail"]:
                        c["rail"] = "RBAT_" + c["name"]       # (the battery's rail name is part of another source's)
                s = rebuild(st3)
            except Exception:
                pass
        batref = bat
        brail = s._g.attrs["rails"].get(bat, "")
        if brail and rng.random() < 0.5:
            batref = brail                            # the battery addressed through its rail name
        if rng.random() < 0.25:
            try:
                s = roundtrip(s)                      # ... on a system that was saved and loaded again
            except Exception:
                pass

        def fresh():
            return drv_batt.numeric_model(kind, cap0 if cap0 > 0 else 1e-300, v0, r0, rng) if cap0 > 0 else _dead_model(v0, r0)
        variants = [None]
        if faults:
            variants += [("probe", 1), ("deplete", 1), ("deplete", rng.randint(2, 4)), ("solve", rng.randint(1, 3)),
                         ("deplete", rng.randint(1, 3), "abort")]
        for f in variants:
            p, d = fresh()
            sc = copy_system(s)
            cases.append(drv_batt.run_batt(sc, batref, cutoff, p, d, len(cases), fail_at=f,
                                           ref_every=(1 if phases else 23 if kind == "plateau" else 97)))
        # the battery addressed through its rail name on the system as saved and loaded again (registries re-created in
        # document order)
        if brail and cap0 > 0:
            try:
                p, d = fresh()
                cases.append(drv_batt.run_batt(roundtrip(copy_system(s)), brail, cutoff, p, d, len(cases), ref_every=(1 if phases else 97)))
            except Exception:
                pass
        # a scripted model: TLC-style monotone sequence ending dead by capacity or by voltage
        k = rng.randint(1, 6)
        seq = [(cap0 * (1 - j / (k + 1.0)), v0 * (1 - 0.02 * j), r0) for j in range(k + 1)]
        seq.append((0.0, v0, r0) if rng.random() < 0.5 else (cap0 * 0.1, cutoff, r0))
        p, d = drv_batt.scripted_model(seq)
        cases.append(drv_batt.run_batt(copy_system(s), bat, cutoff, p, d, len(cases)))
        # not a source / unknown name
        others = [c["name"] for c in project(s)["comps"] if c["cls"] != "Source"]
        for nm in ([rng.choice(others)] if others else []) + ["no such component"]:
            p, d = fresh()
            cases.append(drv_batt.run_batt(copy_system(s), nm, cutoff, p, d, len(cases)))
    return cases


def _dead_model(v0, r0):
    """a battery that is empty when probed"""
    def pfunc():
        return (0.0, v0, r0)

    def dfunc(dt, i):
        return (0.0, v0, r0)
    return pfunc, dfunc


def copy_system(s):
    import copy
    return copy.deepcopy(s)


def run_c18(ctx):
    res = Result()
    _mc_batt(ctx, res)
    cases = batt_cases(ctx, 25 if ctx.quick else 400, faults=False)
    validate_batt(ctx, res, cases)
    res.extra["runs"] = len(cases)
    res.extra["deplete_steps"] = sum(sum(1 for e in c["events"] if e["k"] == "deplete") for c in cases)
    res.extra["distinct_nontrivial"] = len({(len(c["events"]), len(c["phases"]), c["outcome"], struct_digest(c["st"])) for c in cases})
    res.samples = [{"battery": c["battery"], "phases": [p["name"] for p in c["phases"]], "events": len(c["events"]),
                    "log_rows": len(c["log"]), "outcome": c["outcome"]} for c in cases[:4]]
    res.assumptions = ["the reference current is the battery row's Iout of solve(vtol=1e-5, itol=1e-6, phase=p) on a deep copy taken when the loop calls the solver",
                       "callbacks whose capacity eventually runs out (numeric constant-voltage / sag / internal-resistance models, scripted monotone sequences)"]
    return conclude("C18", ctx, res, rule="batt_life on generated systems (any source as battery, 0/2/3 phases, three numeric battery models and scripted sequences, "
                    "cutoffs 0..95 %): every callback and solver call of the run is recorded and must be a behaviour of Batt.tla with the documented arguments")


def run_c17(ctx):
    import props_edit
    import drv_edit
    from record import Recorder
    res = Result()
    rng = ctx.rng
    _mc_batt(ctx, res)
    # (1) batt_life restores the battery on return and on every failure point
    bc = batt_cases(ctx, 12 if ctx.quick else 200, faults=True)
    validate_batt(ctx, res, bc)
    res.extra["batt_runs"] = len(bc)
    res.extra["batt_failures_injected"] = sum(1 for c in bc if c["outcome"] == "exc" and c["known"] and c["is_source"])
    # (2) interleavings of analysis calls: state, deep state and argument objects unchanged; repeatable
    rec = Recorder()
    rec.deep = True
    rec.install()
    twins = []
    n_sys = 40 if ctx.quick else 800
    try:
        behs = build_behaviours(ctx, n_sys + 5, depths=(5, 8, 11))
        for st in behs[:n_sys]:
            g = gen.Gen(rng, neg=0.1, tables=0.4, limits=gen.random_limits)
            with rec.paused():
                s = drv_solve.build_system(st, g, rng)
            rec.adopt(s, "analyses")
            analysis_mix(s, rng, twins, rec)
    finally:
        rec.uninstall()
    traces = rec.dump()
    res.add_traces(traces)
    verd, stat, states = tlc.validate("TraceEdit.tla", "TraceEdit.cfg", tlc.split(traces, tlc.NCPU), ctx.work)
    res.verd += verd
    for k, v in stat.items():
        res.stat[k] = res.stat.get(k, 0) + v
    res.extra["trace_validation_states"] += states
    for c in twins:
        c["id"] = 10 ** 6 + c["id"]
    validate_twins(ctx, res, twins)
    res.extra["analysis_calls"] = sum(len(t["events"]) - 1 for t in traces)
    res.extra["distinct_nontrivial"] = len({(e["op"], str(e["args"])) for t in traces for e in t["events"]}) + len(bc)
    res.samples = [{"op": e["op"], "args": e["args"], "outcome": e["outcome"]} for e in traces[0]["events"][1:6]]
    res.assumptions = ["deep digest = node payloads (params, limits, interpolation arrays), registries, phase tables, edges",
                       "argument objects (tags, config dictionaries) are compared by repr before/after"]
    return conclude("C17", ctx, res, rule="(1) batt_life with a failure injected at the k-th probe / deplete / solver call and on normal return: the battery Source must "
                    "carry its own parameters afterwards; (2) random interleavings of solve/rail_rep/params/limits/phases/tree/save/plot_interp/make_diag/make_hdiag/batt_life "
                    "with argument variety: projected and deep state unchanged, argument objects unchanged, solve() before = after = repeated (exact)")


def analysis_mix(s, rng, twins, rec):
    import matplotlib.pyplot as plt
    import drv_batt
    from sysloss.diagram import make_diag, make_hdiag, get_conf
    st = project(s)
    names = [c["name"] for c in st["comps"]]
    phs = [p["name"] for p in st["sysph"]]
    tmp = tempfile.mkdtemp(prefix="sl_an_")

    def solve_tab():
        with rec.paused(), warnings.catch_warnings():
            warnings.simplefilter("ignore")
            try:
                return drv_solve.table_wire(s.solve())
            except Exception as e:
                return {"cols": ["exc:" + excname(e)], "rows": [], "isnone": True}
    t0 = solve_tab()
    tags = {"run": 7, "who": "x"}
    conf = get_conf()
    conf["node"]["Converter"] = {"fillcolor": "red"}
    ops = []
    for _ in range(rng.randint(4, 9)):
        ops.append(rng.choice(["solve", "solve_kw", "rail_rep", "params", "limits", "phases", "tree", "save", "plot", "diag", "hdiag", "batt"]))
    for op in ops:
        try:
            with warnings.catch_warnings():
                warnings.simplefilter("ignore")
                if op == "solve":
                    s.solve()
                elif op == "solve_kw":
                    s.solve(phase=rng.choice(phs) if phs and rng.random() < 0.6 else "", energy=rng.random() < 0.5,
                            ta=rng.choice([25.0, -10.0, 70.0]), tags=tags, vtol=rng.choice([1e-6, 1e-4]), quiet=True)
                elif op == "rail_rep":
                    s.rail_rep(tags=tags, energy=rng.random() < 0.5)
                elif op == "params":
                    s.params(limits=rng.random() < 0.5)
                elif op == "limits":
                    s.limits()
                elif op == "phases":
                    s.phases()
                elif op == "tree":
                    with contextlib_redirect():
                        s.tree(rng.choice(names)) if rng.random() < 0.5 else s.tree()
                elif op == "save":
                    s.save(os.path.join(tmp, "s.json"), indent=rng.choice([2, 4]))
                elif op == "plot":
                    with contextlib_redirect():
                        f = s.plot_interp(rng.choice(names), plot3d=rng.random() < 0.3, inpdata=rng.random() < 0.5)
                    plt.close("all")
                elif op in ("diag", "hdiag"):
                    with rec.paused():
                        pass
                    # module level functions: call them through the recorder by hand
                    ev_wrap(rec, s, op, lambda: (make_diag if op == "diag" else make_hdiag)(
                        s, fname=os.path.join(tmp, "d.raw"), group=rng.random() < 0.5, config=conf if rng.random() < 0.6 else {}), [conf])
                elif op == "batt":
                    srcs = [c["name"] for c in st["comps"] if c["cls"] == "Source"]
                    p, d = drv_batt.scripted_model([(1.0, 3.3, 0.2), (0.5, 3.2, 0.25), (0.0, 3.1, 0.3)])
                    s.batt_life(rng.choice(srcs), cutoff=1.0, pfunc=p, dfunc=d, tags=tags)
        except Exception:
            pass
    t1 = solve_tab()
    t2 = solve_tab()
    # nothing the analyses computed on the way (derived tables, caches) may show after a LATER edit: one edit (a leaf
    # moved, a component replaced / renamed, a phase-configured component replaced without configuring it again, phases
    # re-declared, a mux input re-railed / removed - props_solve.apply_some_edit) and every report compared with a
    # system rebuilt from scratch
    if rng.random() < 0.6:
        from rebuild import rebuild
        import props_solve
        with rec.paused(), warnings.catch_warnings():
            warnings.simplefilter("ignore")
            try:
                r = props_solve.apply_some_edit(s, rng)
                if r is not None and r["exc"] is None:
                    st_e = project(s)
                    if not st_e["anom"]:
                        ra, rb = reports.all_reports(s), reports.all_reports(rebuild(st_e))
                        for t in reports.twin_cases("C17.NoInterference.AfterEdit", ra, rb, False, "analyses, then %s" % r["what"], 0,
                                                    only=("Solve", "RailRep", "Phases")):   # (params() also lists non-applicable limits, which a rebuild drops)
                            t["id"] = len(twins)
                            t["st"] = st_e
                            twins.append(t)
            except drv_solve.HarnessError:
                raise
            except Exception:
                pass
    import shutil
    shutil.rmtree(tmp, ignore_errors=True)
    for clause, a, b in (("C17.NoInterference", t0, t1), ("C17.Repeatable", t1, t2)):
        twins.append({"id": len(twins), "clause": clause, "kind": "table", "exact": True, "what": "system with %d components" % len(names),
                      "a": a, "b": b, "outcome": "", "exc": "", "st": st})


import contextlib as _cl
import io as _io


def contextlib_redirect():
    return _cl.redirect_stdout(_io.StringIO())


def ev_wrap(rec, s, op, fn, objs):
    """record a module-level analysis (diagram functions) like a method call"""
    from project import deep_digest, digest
    ev = {"op": op, "args": {"a": [], "kw": {"_": 0}}, "outcome": "ok", "deep0": deep_digest(s), "args0": digest(repr(objs))}
    rec.depth += 1
    try:
        fn()
    except Exception as e:
        ev["outcome"], ev["exc"] = "exc", excname(e)
    finally:
        rec.depth -= 1
        ev["after"] = rec._after(s)
        ev["deep1"] = deep_digest(s)
        ev["args1"] = digest(repr(objs))
        rec.traces[s._vf_tid].append(ev)


REGISTRY["C18"] = {"run": run_c18, "replay": lambda ctx, path: 2}
REGISTRY["C17"] = {"run": run_c17, "replay": lambda ctx, path: 2}
