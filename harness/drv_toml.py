"""C13: executes the cases enumerated by spec/MCToml.tla: writes the TOML text, calls
Kind.from_file and the constructor with the same values, and reports outcomes and canonical
digests of the two components (payload, params()/limits() rows, solved probe)."""
from decwire import excname
import copy
import os
import tempfile
import warnings

import sysloss.components as C
from project import comp_pay, digest
from reports import df_rows
from drv_solve import table_wire

SECTION = {"Source": "source", "PLoad": "pload", "ILoad": "iload", "RLoad": "rload", "RLoss": "rloss", "VLoss": "vloss",
           "Converter": "converter", "LinReg": "linreg", "PSwitch": "pswitch", "PMux": "pmux", "Rectifier": "rectifier"}
KEYS = {"Source": ["vo", "rs"], "PLoad": ["pwr", "pwrs", "rt", "loss"], "ILoad": ["ii", "iis", "rt", "loss"],
        "RLoad": ["rs", "rt", "loss"], "RLoss": ["rs", "rt"], "VLoss": ["vdrop", "rt"],
        "Converter": ["vo", "eff", "iq", "iis", "rt"], "PSwitch": ["rs", "ig", "iis", "rt"], "PMux": ["rs", "ig", "iis", "rt"],
        "Rectifier": ["vdrop", "rs", "ig", "iq", "rt"], "LinReg": ["vo", "vdrop", "ig", "iis", "rt"]}
FLOATS = {"vo": 5.0, "rs": 0.21, "pwr": 0.35, "pwrs": 0.002, "rt": 7.5, "ii": 0.04, "iis": 0.0003, "vdrop": 0.27, "eff": 0.86,
          "iq": 0.0011, "ig": 0.0007, "loss": 1.0}
INTS = {"vo": 5, "rs": 2, "pwr": 1, "pwrs": 1, "rt": 9, "ii": 1, "iis": 1, "vdrop": 1, "eff": 1, "iq": 1, "ig": 1, "loss": 1}


def value(key, form, rng, kind=""):
    if kind == "Rectifier" and key == "vdrop" and form in ("int", "float") and rng.random() < 0.4:
        return 0 if form == "int" else 0.0          # a bridge without diode drop = MOSFET mode (rs, ig, iq apply)
    if form == "int":
        return INTS[key] if rng.random() < 0.7 else -INTS[key]
    if form == "float":
        v = FLOATS[key] * rng.choice([1.0, 0.5, 1.7])
        if key != "eff" and rng.random() < 0.25:
            v = -v
        return v
    if form == "str":
        return "abc"
    if form == "bool":
        return rng.random() < 0.5
    if form == "list":
        return [0.11, 0.22, 0.33, 0.44]
    if form == "table":
        z = key
        base = {"eff": [[0.61, 0.82, 0.9]], "vdrop": [[0.21, 0.3, 0.41]], "ig": [[1e-5, 4e-4, 9e-4]]}.get(key, [[0.1, 0.2, 0.3]])
        if rng.random() < 0.5:
            return {"vi": [6.0], "io": [0.01, 0.1, 0.8], z: base}
        return {"vi": [3.0, 24.0], "io": [0.01, 0.1, 0.8], z: [base[0], [x * 0.9 for x in base[0]]]}
    raise KeyError(form)


def toml_val(v):
    if isinstance(v, bool):
        return "true" if v else "false"
    if isinstance(v, (int, float)):
        return repr(v)
    if isinstance(v, str):
        return '"%s"' % v
    if isinstance(v, list):
        return "[" + ", ".join(toml_val(x) for x in v) + "]"
    if isinstance(v, dict):
        return "{" + ", ".join("%s = %s" % (k, toml_val(x)) for k, x in v.items()) + "}"
    raise TypeError(v)


LIMITS = {"vi": [0.5, 40.0], "io": [0.0, 1.5], "tp": [-20.0, 95.0], "pl": [0.0, 0.7]}


def probe(comp, kind):
    from sysloss.system import System
    with warnings.catch_warnings():
        warnings.simplefilter("ignore")
        try:
            if kind == "Source":
                s = System("p", comp)
                s.add_comp(comp._params["name"], comp=C.ILoad("l", ii=0.1))
            else:
                s = System("p", C.Source("s", vo=12.0))
                s.add_comp("s", comp=comp)
                if kind not in ("PLoad", "ILoad", "RLoad"):
                    s.add_comp(comp._params["name"], comp=C.ILoad("l", ii=0.1))
            rows = digest([df_rows(s.params(limits=True)), df_rows(s.limits())])
        except Exception as e:
            return "exc:" + excname(e), "exc:" + excname(e)
        try:
            t = digest(table_wire(s.solve()))
        except Exception as e:
            t = "exc:" + excname(e)
    return rows, t


def reference_digest():
    """what the constructors build when no limits / optional parameters are given, and how such components behave:
    loading a file must not change it (no shared defaults, no module-level state)"""
    from sysloss.system import System
    with warnings.catch_warnings():
        warnings.simplefilter("ignore")
        s = System("ref", C.Source("s", vo=12.0))
        s.add_comp("s", comp=C.Converter("c", vo=5.0, eff=0.9))
        s.add_comp("c", comp=C.LinReg("l", vo=3.3))
        s.add_comp("l", comp=C.PLoad("p", pwr=0.5))
        s.add_comp("s", comp=C.RLoss("r", rs=0.5))
        s.add_comp("r", comp=C.ILoad("i", ii=0.25))
        # a branch whose values lie outside every limit window the generated files carry: should a loaded file's limits
        # leak into the defaults, its components start to warn
        s.add_source(C.Source("h", vo=60.0))
        s.add_comp("h", comp=C.RLoss("rh", rs=1.0, rt=40.0))
        s.add_comp("rh", comp=C.ILoad("ih", ii=2.0))
        return digest([df_rows(s.params(limits=True)), df_rows(s.limits()), table_wire(s.solve()),
                       digest(comp_pay(C.PSwitch("x"))), digest(comp_pay(C.Rectifier("y")))])


def run_case(st, cid, rng, tmpdir):
    kind = st["kind"]
    keys = KEYS[kind]
    forms = [st["forms"][i] if isinstance(st["forms"], list) else st["forms"][i + 1] for i in range(5)]
    P = {}
    for k, f in zip(keys, forms):
        if f != "absent":
            P[k] = value(k, f, rng, kind)
    L = dict(LIMITS) if st["lim"] == "ok" else None
    # LinReg: the deprecated spelling iq of the ground current (file and constructor call both use it)
    if kind == "LinReg" and "ig" in P and isinstance(P["ig"], (int, float, dict)) and not isinstance(P["ig"], bool) and rng.random() < 0.3:
        v = P.pop("ig")
        if isinstance(v, dict):
            v = {("iq" if kk == "ig" else kk): vv for kk, vv in v.items()}
        P["iq"] = v
    elif kind == "LinReg" and "ig" in P and rng.random() < 0.3:
        # both spellings in one file, the deprecated one exactly 0: the ground current is the one given as ig
        # (LinReg(name, iq=0.0, ig=X) uses X)
        P = dict(P, iq=rng.choice([0.0, 0]))
    text = "[%s]\n" % SECTION[kind] + "".join("%s = %s\n" % (k, toml_val(v)) for k, v in P.items() if not isinstance(v, dict))
    for k, v in P.items():
        if isinstance(v, dict):
            text += "[%s.%s]\n" % (SECTION[kind], k) + "".join("%s = %s\n" % (kk, toml_val(vv)) for kk, vv in v.items())
    if L is not None:
        text += "\n[limits]\n" + "".join("%s = %s\n" % (k, toml_val(v)) for k, v in L.items())
    # a small pool of paths, rewritten from case to case: what is loaded must be what the file holds now
    path = os.path.join(tmpdir, "c%d.toml" % (cid % 2))
    with open(path, "w") as f:
        f.write(text)
    cls = getattr(C, kind)
    case = {"id": cid, "kind": kind, "forms": forms, "lim": st["lim"], "ff": "ok", "ct": "ok", "ff2": "ok",
            "da": "", "db": "", "da2": "", "ra": "", "rb": "", "pa": "", "pb": "", "toml": text}
    a = a2 = b = None
    with warnings.catch_warnings():
        warnings.simplefilter("ignore")
        try:
            a = cls.from_file("X", fname=path)
        except Exception as e:
            case["ff"] = excname(e)
        try:      # loading the same file again gives the same component
            a2 = cls.from_file("X", fname=path)
        except Exception as e:
            case["ff2"] = excname(e)
        try:
            kw = copy.deepcopy(P)
            if L is not None:
                kw["limits"] = dict(L)
            b = cls("X", **kw)
        except Exception as e:
            case["ct"] = excname(e)
    if a is not None:
        case["da"] = digest(comp_pay(a))
        case["ra"], case["pa"] = probe(a, kind)
    if a2 is not None:
        case["da2"] = digest(comp_pay(a2))
    case["ref"] = reference_digest() if (L is not None or cid % 7 == 0) else ""
    if b is not None:
        case["db"] = digest(comp_pay(b))
        case["rb"], case["pb"] = probe(b, kind)
    return case
