"""Writes /verif/MANIFEST.json from the table below (one source of truth for the registered checks)."""
import json
import os

ROOT = os.path.dirname(os.path.dirname(os.path.abspath(__file__)))

CHECKS = {
    "C14": dict(
        technique="TLA+ model checking (TLC) of the edit state machine (MCEdit) and of its implementation-grain refinement (SysImpl / MCImpl: node slots, registries, raw parent "
                  "references) + trace validation of replayed TLC behaviours against the specification",
        text="WellFormed is an invariant of MCEdit.tla checked exhaustively by TLC on bounded instances (3-4 names, rail universe overlapping the names, 5 structural classes); "
             "the same SysTree actions judge, in TraceEdit.tla, every call of TLC-generated behaviours replayed into the real System (all accepted and sampled rejected transitions of the "
             "state graph from every abstract state, plus simulated histories over all 11 classes): after every call the projected concrete state must satisfy every conjunct of WellFormed.",
        note="trusts the projection of System._g/_g.attrs, TLC, and the bounded universes; histories longer than the bounds are covered only by simulation",
        design="DESIGN.md 7 (C14)"),
    "C15": dict(
        technique="TLA+ action property RejectedUnchanged (TLC, MCEdit) and 'a rejected call leaves the concrete state untouched' in the refinement check of SysImpl (MCImpl) "
                  "+ trace validation of every raising call",
        text="RejectedUnchanged ([][outcome' = rej => UNCHANGED sys]) holds on MCEdit.tla; for the code, TLC compares the deep projection before and after every call that raised in the replayed "
             "behaviours (every reject branch of the model is exercised from every reachable abstract state of the bounded instance), and on a random subset the digests of "
             "params(limits=True)/phases()/save()/tree()/solve().",
        note="the projection is assumed to cover the mutable state of a System; exception classes of edit calls are recorded, not judged",
        design="DESIGN.md 7 (C15)"),
}

SOLVE_NOTE = ("trusts the projection, the exact-decimal transcription of floats and the two tolerance classes (DESIGN.md 5); "
              "decided for the generated input classes (<= 12 components, |V| in [0.5, 1000], loads >= 1 uA), not to the last bit")


def _solve(text, design, mc=""):
    return dict(technique="TLC model checking of the specification (" + (mc or "MCSkel.tla: discrete skeleton invariants on every small tree") + ") + trace validation by TLC: every recorded solve()/rail_rep() "
                          "table of the real library is checked against the TLA+ relations of Elec.tla / TraceSolve.tla; structures come from TLC (simulated construction histories, "
                          "the enumerated skeleton / coverage-matrix states) and from the repository's own test-suite run under a recorder",
                text=text + " Also validated: solve - edit - solve sequences, the system as configured (the final state of the TLC construction behaviour) against the projected state, "
                            "and every solve() table of the repository's test-suite.", note=SOLVE_NOTE, design=design)


CHECKS.update({
    "C01": _solve("Every component row of every recorded solve() table (numeric instantiations of TLC-generated power trees: all 11 kinds, constant/1-D/2-D parameters, both polarities, "
                  "1-3 sources, mux, phases) must satisfy the neighbour links (Vin = Vout of the supplier, Iout = sum of the children it supplies) and the documented transfer law of its kind, "
                  "stated division-free over exact decimals in Elec.tla.", "DESIGN.md 7 (C01)",
                  mc="MCLaws.tla: the functional form of every law is accepted and its perturbation rejected by the relations, Mirror; MCSkel.tla: skeleton invariants"),
    "C02": _solve("Per row: Power/Loss accounting, loss range, efficiency formula and range, load booked as Power xor Loss, Power - Loss = |Vout| x Iout, thermal rise and peak; per phase: "
                  "source power = load power + losses, and the documented loss expression of every kind on the row's own quantities (LossLaw, exact class). All as TLA+ clauses evaluated "
                  "by TLC on recorded tables with ta in {-40,0,25,85}.", "DESIGN.md 7 (C02)",
                  mc="MCLaws.tla: EnergyRow, LossBounds, EffRange, PassiveNoGain are theorems of the documented laws on a parameter / operating-point lattice for all 11 kinds"),
    "C04": _solve("The discrete skeleton (OutLive/InLive, derived from the abstract state alone) predicts which rows must be exactly zero and which components sleep; TLC checks every recorded row "
                  "of systems with 0 V / phase-inactive sources, inactive converters/regulators/switches/muxes and muxes without live input.", "DESIGN.md 7 (C04)"),
    "C05": _solve("For every recorded mux row: input voltage = output of the first live input, output law with the on-resistance of that input, input current law, only the selected input is "
                  "charged with the mux current, Parent / Rail in / Domain name the selected input, all-dead mux is dead.", "DESIGN.md 7 (C05)"),
    "C06": _solve("Per-phase behaviour is part of the laws (phase value, sleep value, active list, no configuration); every phase of every recorded table is validated with that phase's "
                  "behaviour, solve(phase=p) must equal the p-rows of the all-phase table, an unknown phase must raise ValueError.", "DESIGN.md 7 (C06)"),
    "C07": _solve("Domain of every row = root of its supply chain (through the selected mux input); Subsystem, System total, System average and 24 h energy cells are recomputed by TLC from "
                  "the component rows (cross-multiplied, exact class).", "DESIGN.md 7 (C07)"),
    "C08": _solve("rail_rep() and solve() are recorded from the same state; TLC relates them: per phase a row for every rail that feeds a component, voltage of the owner, sums over exactly "
                  "the fed components (mux counted under its selected input), union of warnings; without rails both tables are identical.", "DESIGN.md 7 (C08)"),
})

CHECKS["C09"] = _solve("The Warnings cell of every recorded row must name exactly the applicable limit keys whose reported quantity lies outside [min, max] (magnitudes, tp signed, strict), "
                       "be empty for a configured component that does not list the phase, and roll up to Subsystem / System total; limits are random dictionaries and, in a second pass, bounds "
                       "placed 1 ulp below / at / 1 ulp above the solved values.", "DESIGN.md 7 (C09)")

CHECKS["C03"] = dict(
    technique="TLA+ state machine of the solver loop (Solver.tla, TLC) + sweep-level trace validation (TraceSolver.tla) + black-box relations (TraceSolve.tla)",
    text="Solver.tla models the fixed-point loop (sweep / returned / RuntimeError / ValueError) and TLC checks ReturnOnlyConverged, Terminates, NoConvOnlyLate for maxiter 0..6. "
         "The real loop is recorded sweep by sweep through run-time wrappers of System._solve/_fwd_prop/_back_prop; TLC classifies every sweep with the exact stopping rule "
         "(numpy.allclose stated over exact decimals) and requires the recorded run to be a behaviour of Solver.tla ending the observed way (never an earlier iterate, a RuntimeError only when "
         "no sweep within maxiter met the requested tolerance, returned vectors = last pre-sweep iterate = table; a run that goes on after a converged sweep is recorded as a note). Black-box: finite, every law reproduced within the requested tolerance, passive elements neither invert nor amplify, only "
         "RuntimeError/ValueError; completeness on designed steady states with modest drops; overloaded systems raise or return such a state.",
    note="completeness is decided for designed steady states (drops <= 6 % per element, <= 25 % per path) only; the wrappers are installed only if the three private methods exist, pass "
         "arguments through unchanged and guard every observation (otherwise the black-box clauses alone decide)",
    design="DESIGN.md 7 (C03)")

TWIN_NOTE = "trusts the projection / canonicalisation of reports (row order, node numbering and sibling order removed, nothing else) and the exact-class tolerance 1e-9"
CHECKS.update({
    "C12": dict(technique="trace validation by TLC: the written document as a relation to the abstract state (TraceReports!SaveDocOK) + projected state and reports of from_file(save(S)) "
                          "against S (Twin.tla); version gate relation",
                text="For numeric instantiations of TLC-generated structures (tables, limits, rails, groups, phases, mux, several sources, both rectifier modes) and a showcase with every parameter of "
                     "every kind non-default and default, TLC compares the projected abstract state of the reloaded system with the original (component payloads, ordered mux inputs, rails, groups, "
                     "phase tables) and the solve/rail_rep/params/limits/phases reports as row sets; the document itself must hold exactly the components with kind, every parameter, limits, parent (mux inputs "
                     "in priority order), rail, group, phase configuration and the phases in declared order (an error shared by save() and from_file() is invisible to the round trip); documents stamped "
                     "with versions around the installed one must be refused iff newer. Systems: generated, showcase, TLC edit histories, hand-built scenarios and edit histories.",
                note=TWIN_NOTE + "; limits compared on applicable keys", design="DESIGN.md 7 (C12)"),
    "C16": dict(technique="TLA+ edit model (SysTree, TLC) + trace validation of replayed histories (TraceEdit.tla) + report equality against a freshly built system (Twin.tla) + "
                          "params()/limits()/phases()/tree()/save() as relations to the abstract state (TraceReports.tla)",
                text="Every accepted edit of TLC-generated histories must leave exactly the state the documented effect of the edit yields (C16.Structure, judged with the SysTree actions); at the end of "
                     "every simulated history and in every state of the bounded edit graph all reports must succeed, list exactly the live components, and equal the reports of a system built from "
                     "scratch from the projected state in canonical and in randomly permuted order; params(limits=True), limits(), phases() and tree() must show exactly the "
                     "configured parameters (tables as 'interp'), non-default applicable limits, per-phase values and links (ParamsOK, LimitsOK, PhasesOK, TreeOK), the saved document exactly the system "
                     "(SaveDocOK). Histories: general, mux-focused, delete-then-regrow, with analyses in the middle, hand-built edit histories, and the repository's own test-suite.", note=TWIN_NOTE, design="DESIGN.md 7 (C16), 15.3a"),
    "C17": dict(technique="TLA+ state machine of batt_life (Batt.tla, TLC) + fault-injected trace validation (TraceBatt.tla) + read-only clauses on recorded analysis calls (TraceEdit.tla, Twin.tla)",
                text="BattRestored is an invariant of Batt.tla (every terminal state carries the user's source parameters). The real batt_life is run with a failure injected at the k-th probe / "
                     "deplete / solver call and on normal return; TLC requires the battery Source to be unchanged afterwards. Random interleavings of all eleven analyses (argument variety) are "
                     "recorded: projected state, deep digest of all payloads and argument objects must be unchanged, solve() before = after = repeated, exactly.",
                note="fault points: k in 1..4 per callback kind (Exception and BaseException); deep digest = parameters, limits, table data of the interpolators, the seven registries, edges "
                     "(private working state such as a lookup memo is not 'the system'); after the analyses one edit of any kind, then every report against a rebuilt system", design="DESIGN.md 7 (C17)", category="model_checking"),
    "C18": dict(technique="TLA+ state machine of batt_life (Batt.tla, TLC) + trace validation of every callback of recorded runs, solver calls as internal steps (TraceBatt.tla)",
                text="PhaseCycle, LogShape, OnlySourceDepleted hold on Batt.tla. Recorded runs (any source as battery, 0/2/3 phases, numeric and scripted battery models, several cutoffs) must follow the "
                     "machine: probe, then one depletion per step exactly while the battery is alive (the solver calls in between are internal steps: where observed, the source carries the battery's "
                     "present voltage and impedance and the phase is the step's); each depletion gets the duration of the cycling phase (or cap0*3.6/i) and the battery's steady-state current - the "
                     "battery row's Iout of a reference solve, made by the harness on a system rebuilt from the projection with the battery at the state its model returned last; the log is the initial "
                     "state plus every alive state with increasing time. Battery models: constant, sagging, rising impedance, flat voltage with rising impedance, scripted.",
                note="the reference current is compared in the solver class (20 units of 1e-8 + 1e-5 |i|): any converged answer is a steady-state current", design="DESIGN.md 7 (C18)"),
    "C20": dict(technique="TLC enumeration of an argument lattice with the algebraic theorems of the formulas as invariants (MCUtils.tla) + validation of the evaluated functions (Utils.tla)",
                text="MCUtils.tla states the formulas over an integer lattice and TLC checks the listed algebraic properties as theorems of the formula; every lattice tuple (with positive jitter) and every "
                     "metamorphic partner is evaluated by the real functions and held, cross-multiplied over exact decimals, to the closed forms and partner relations.",
                note="a pure function: the weakest fit for the technique; tolerance 1e-12 relative", design="DESIGN.md 7 (C20)"),
})

ENUM_NOTE = "the bounded model enumerates argument FORMS; concrete values per form are fixed by the driver (several per form)"
CHECKS.update({
    "C10": dict(technique="TLC model of the table semantics (Interp.tla / MCInterp.tla) + trace validation of probe systems built from the enumerated lattice states",
                text="Interp.tla defines a tabulated parameter as a relation (exact on grid, linear on lines, either cell diagonal inside, clamped outside, sign ignored); TLC checks GridExact, Functional, "
                     "InRange, Clamped, SignIgnored, ConstTable on every small integer grid x half-integer query lattice. Sampled lattice states are mapped affinely to physical Source - X - ILoad probes "
                     "(eff, vdrop, ig on six kinds, both polarities); TLC requires the solved row of X to follow its law with an admissible table value; equal-entry tables must solve like the constant.",
                note=SOLVE_NOTE + "; well-conditioned tables only (increasing axes)", design="DESIGN.md 7 (C10)"),
    "C11": dict(technique="TLC enumeration of constructor argument forms with the acceptance rule (Ctor.tla / MCCtor.tla) + validation of every executed case (TraceCtor.tla) + consequence clauses on solved probes",
                text="Ctor.tla states which argument forms are rejected and which parameters are magnitudes; TLC checks that the rule implies physical parameter signs (AcceptedIsPhysical) over ~17 000 "
                     "cases. Every case is executed against the real constructor: ValueError iff the rule rejects, stored magnitudes; accepted components are solved in probes that must show no negative "
                     "loss, efficiency <= 100 %, no passive gain, and negative-signed arguments must behave exactly like their magnitudes.",
                note=ENUM_NOTE, design="DESIGN.md 7 (C11)"),
    "C13": dict(technique="TLC enumeration of TOML loader cases with the loader semantics as oracle (Toml.tla / MCToml.tla) + validation of every executed case (TraceToml.tla)",
                text="Toml.tla gives the parameter schema of every kind and classifies a file (form of every key) as KeyError / ValueError / either / delegated to the constructor; MCToml enumerates 88 064 "
                     "cases. Each executed case writes the TOML text, calls Kind.from_file and the constructor with the same values: exception class per the classification, and for built components equal "
                     "payload, params()/limits() rows and solved probe.", note=ENUM_NOTE + "; quick tier: stratified sample", design="DESIGN.md 7 (C13)"),
    "C19": dict(technique="trace validation by TLC (TraceDiag.tla) of diagrams rendered to dot source and parsed back",
                text="For generated systems and random configurations TLC checks the rendered node / edge / cluster sets against the abstract state, the default -> kind -> name attribute precedence, cluster "
                     "attributes, unchanged caller configuration and, for heat diagrams, labels (three significant digits of the duration-weighted loss), colour order, extremes and the legend.",
                note="rendered through fname=*.raw (dot source), graphviz layout not exercised; the legend is the one rendered node that is no component, warm / cold are the ends of the "
                     "gradient it shows; configured attributes must be present with the precedence's value (attributes the renderer adds on its own are not judged)", design="DESIGN.md 7 (C19)"),
})

NOT_BUILT = "check not built yet in this round (framework under construction; see DESIGN.md section 13)"


def main():
    props = [json.loads(l) for l in open(os.path.join(ROOT, "properties.jsonl"))]
    checks, na = [], []
    for p in props:
        pid = p["id"]
        if pid in CHECKS:
            c = CHECKS[pid]
            checks.append({
                "property_id": pid,
                "quick_cmd": "./check %s --tier quick" % pid,
                "thorough_cmd": "./check %s --tier thorough" % pid,
                "evidence_file": "/verif/evidence/%s.json" % pid,
                "replay_cmd_template": "./check %s --replay {path}" % pid,
                "engine": "tlc",
                "level_claimed": {"category": c.get("category", "model_checking"), "text": c["text"], "design_ref": c["design"]},
                "level_note": c["note"],
                "technique": c["technique"],
            })
        else:
            na.append({"property_id": pid, "reason": NOT_BUILT})
    m = {
        "version": 1,
        "setup_cmd": "./setup.sh",
        "hooks": {
            "guard": "SYSLOSS_VERIF",
            "enable": "no source hooks: the recorder (harness/record.py) wraps System methods at run time inside the harness process only",
            "baseline_off_cmd": "cd /repo && /venv/bin/python -m pytest -ra -q -p no:cacheprovider --timeout=900",
            "source_commits": [],
            "add_only": True,
        },
        "engines": [{"name": "tlc", "path": "/opt/veriftools/tla/tla2tools.jar",
                     "serves_properties": sorted(CHECKS), "kind_free_text": "TLC 1.8 explicit-state model checker: exhaustive runs, -simulate behaviour generation, state-graph dump, trace validation"}],
        "checks": checks,
        "not_applicable": na,
        "notes": "All checks: ./check <id> --tier quick|thorough; specification in /verif/spec, harness in /verif/harness; known findings in /verif/known_findings.json",
    }
    with open(os.path.join(ROOT, "MANIFEST.json"), "w") as f:
        json.dump(m, f, indent=1)


if __name__ == "__main__":
    main()
