"""Writes /verif/MANIFEST.json from the table below (one source of truth for the registered checks)."""
import json
import os

ROOT = os.path.dirname(os.path.dirname(os.path.abspath(__file__)))

CHECKS = {
    "C14": dict(
        technique="TLA+ model checking (TLC) of the edit state machine + trace validation of replayed TLC behaviours against the specification",
        text="WellFormed is an invariant of MCEdit.tla checked exhaustively by TLC on bounded instances (3-4 names, rail universe overlapping the names, 5 structural classes); "
             "the same SysTree actions judge, in TraceEdit.tla, every call of TLC-generated behaviours replayed into the real System (all accepted and sampled rejected transitions of the "
             "state graph from every abstract state, plus simulated histories over all 11 classes): after every call the projected concrete state must satisfy every conjunct of WellFormed.",
        note="trusts the projection of System._g/_g.attrs, TLC, and the bounded universes; histories longer than the bounds are covered only by simulation",
        design="DESIGN.md 7 (C14)"),
    "C15": dict(
        technique="TLA+ action property RejectedUnchanged (TLC) + trace validation of every raising call",
        text="RejectedUnchanged ([][outcome' = rej => UNCHANGED sys]) holds on MCEdit.tla; for the code, TLC compares the deep projection before and after every call that raised in the replayed "
             "behaviours (every reject branch of the model is exercised from every reachable abstract state of the bounded instance), and on a random subset the digests of "
             "params(limits=True)/phases()/save()/tree()/solve().",
        note="the projection is assumed to cover the mutable state of a System; exception classes of edit calls are recorded, not judged",
        design="DESIGN.md 7 (C15)"),
}

NOT_BUILT = "check not built yet in this round (framework under construction; see DESIGN.md section 13)"


def main():
    props = [json.loads(l) for l in open(os.path.join(ROOT, "properties.jsonl"))]
    checks, na = [], []
    for p in props:
        pid = p["id"]
        if pid in CHECKS:
            c = CHECKS[pid]
            checks.append({
                "property_id": pid,
                "quick_cmd": "./check %s --tier quick" % pid,
                "thorough_cmd": "./check %s --tier thorough" % pid,
                "evidence_file": "/verif/evidence/%s.json" % pid,
                "replay_cmd_template": "./check %s --replay {path}" % pid,
                "engine": "tlc",
                "level_claimed": {"category": c.get("category", "model_checking"), "text": c["text"], "design_ref": c["design"]},
                "level_note": c["note"],
                "technique": c["technique"],
            })
        else:
            na.append({"property_id": pid, "reason": NOT_BUILT})
    m = {
        "version": 1,
        "setup_cmd": "./setup.sh",
        "hooks": {
            "guard": "SYSLOSS_VERIF",
            "enable": "no source hooks: the recorder (harness/record.py) wraps System methods at run time inside the harness process only",
            "baseline_off_cmd": "cd /repo && /venv/bin/python -m pytest -ra -q -p no:cacheprovider --timeout=900",
            "source_commits": [],
            "add_only": True,
        },
        "engines": [{"name": "tlc", "path": "/opt/veriftools/tla/tla2tools.jar",
                     "serves_properties": sorted(CHECKS), "kind_free_text": "TLC 1.8 explicit-state model checker: exhaustive runs, -simulate behaviour generation, state-graph dump, trace validation"}],
        "checks": checks,
        "not_applicable": na,
        "notes": "All checks: ./check <id> --tier quick|thorough; specification in /verif/spec, harness in /verif/harness; known findings in /verif/known_findings.json",
    }
    with open(os.path.join(ROOT, "MANIFEST.json"), "w") as f:
        json.dump(m, f, indent=1)


if __name__ == "__main__":
    main()
