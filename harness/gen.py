"""Numeric instantiation of TLC-generated structures: random, in-range component parameters
(DESIGN section 5: |V| in [0.5, 1000], loads >= 1 uA, modest series drops), constant or tabulated."""
import copy
import math


def _lg(rng, lo, hi):
    return math.exp(rng.uniform(math.log(lo), math.log(hi)))


def _r(x, nd=6):
    """round to a few significant digits so that numbers are short decimals"""
    if x == 0:
        return 0.0
    return float("%.*g" % (nd, x))


def table(rng, zkey, f, vin, imax, dims=None):
    """1-D or 2-D table of the positive function value f(io, vi) around the operating region"""
    nio = rng.randint(2, 4)
    ios = sorted({_r(imax * k / nio * rng.uniform(0.6, 1.4), 4) for k in range(nio + 1)})
    if rng.random() < 0.5:
        ios[0] = 0.0
    ios = sorted(set(ios))
    if len(ios) < 2:
        ios = [0.0, _r(imax, 4) or 1.0]
    d2 = (dims == 2) or (dims is None and rng.random() < 0.5)
    if d2:
        nv = rng.randint(2, 3)
        vis = sorted({_r(abs(vin) * rng.uniform(0.3, 1.6), 4) for _ in range(nv)})
        if len(vis) < 2:
            vis = [_r(abs(vin) * 0.5, 4), _r(abs(vin) * 1.5, 4)]
    else:
        vis = [_r(abs(vin), 4)]
    z = [[_r(f(io, vi), 5) for io in ios] for vi in vis]
    if zkey == "vdrop":
        # a drop may be written with a minus sign (whole table, or single entries): the magnitude counts
        r = rng.random()
        if r < 0.12:
            z = [[-x for x in row] for row in z]
        elif r < 0.22:
            i, j = rng.randrange(len(z)), rng.randrange(len(z[0]))
            z[i][j] = -z[i][j]
    return {"vi": vis, "io": ios, zkey: z}


class Gen:
    """random component factory; keeps an estimate of every component's output voltage so that
    parameters stay in a physically sensible range"""

    def __init__(self, rng, tables=0.25, neg=0.15, zero_src=0.0, limits=None, small_rs=False, overload=0.0, negphase=0.15):
        self.rng = rng
        self.vest = {}
        self.made = {}               # name -> what was handed to the constructor (class, limits)
        self.p_tables = tables
        self.p_neg = neg
        self.p_zero = zero_src
        self.limits = limits
        self.small_rs = small_rs
        self.negphase = negphase     # probability that an ILoad phase current is written with a minus sign
        self.overload = overload     # probability that a component is made an overload (huge load / series resistance)

    def vin_of(self, parents):
        for p in parents:
            v = self.vest.get(p, 0.0)
            if v != 0.0:
                return v
        return 0.0

    def desc(self, cls, name, parents=()):
        rng = self.rng
        vin = self.vin_of(parents) if parents else 0.0
        av = abs(vin) if vin else 12.0
        imax = 0.5
        tab = lambda: rng.random() < self.p_tables
        P = {}
        if cls == "Source":
            vo = _r(_lg(rng, 2.0, 60.0), 4)
            if rng.random() < self.p_neg:
                vo = -vo
            if rng.random() < self.p_zero:
                vo = 0.0
            P = dict(vo=vo, rs=rng.choice([0.0, _r(_lg(rng, 1e-3, 0.3), 3)]))
            self.vest[name] = vo
        elif cls == "PLoad":
            P = dict(pwr=_r(_lg(rng, 1e-5, 0.3) * av, 4) if rng.random() > 0.04 else 0.0, pwrs=rng.choice([0.0, _r(_lg(rng, 1e-7, 1e-4) * av, 3), _r(_lg(rng, 1e-4, 1e-2) * av, 3)]),
                     rt=rng.choice([0.0, _r(_lg(rng, 1, 100), 3)]), loss=rng.random() < 0.2)
        elif cls == "ILoad":
            P = dict(ii=_r(_lg(rng, 1e-6, 0.3), 4) if rng.random() > 0.04 else 0.0, iis=rng.choice([0.0, _r(_lg(rng, 1e-7, 1e-4), 3)]),
                     rt=rng.choice([0.0, _r(_lg(rng, 1, 100), 3)]), loss=rng.random() < 0.2)
        elif cls == "RLoad":
            P = dict(rs=_r(av / _lg(rng, 1e-5, 0.3), 4), rt=rng.choice([0.0, _r(_lg(rng, 1, 100), 3)]), loss=rng.random() < 0.2)
        elif cls == "RLoss":
            P = dict(rs=rng.choice([0.0, _r(_lg(rng, 1e-3, 0.08 * av / imax), 3)]), rt=rng.choice([0.0, _r(_lg(rng, 1, 50), 3)]))
            self.vest[name] = vin
        elif cls == "VLoss":
            vd = _r(rng.uniform(0.0, min(0.7, 0.08 * av)), 3) if rng.random() > 0.08 else 0.0     # (a drop of exactly 0 is legal)
            P = dict(vdrop=vd, rt=rng.choice([0.0, _r(_lg(rng, 1, 50), 3)]))
            if tab():
                P["vdrop"] = table(rng, "vdrop", lambda io, vi: vd * (0.6 + 0.5 * io / imax) + 0.001 * vi, av, imax)
            self.vest[name] = vin
        elif cls == "Converter":
            vo = _r(_lg(rng, 0.8, 48.0), 4)
            if rng.random() < self.p_neg:
                vo = -vo
            e0 = rng.uniform(0.6, 0.98) if rng.random() > 0.05 else 1.0
            P = dict(vo=vo, eff=_r(e0, 3), iq=rng.choice([0.0, _r(_lg(rng, 1e-6, 1e-3), 3)]),
                     iis=rng.choice([0.0, _r(_lg(rng, 1e-7, 1e-5), 3)]), rt=rng.choice([0.0, _r(_lg(rng, 1, 50), 3)]))
            if tab():
                P["eff"] = table(rng, "eff", lambda io, vi: min(0.99, max(0.3, e0 * (0.8 + 0.2 * io / imax) - 0.002 * vi)), av, imax)
            self.vest[name] = vo
        elif cls == "LinReg":
            vo = _r(rng.uniform(0.3, 0.95) * av, 4) if rng.random() < 0.85 else _r(rng.uniform(1.0, 1.3) * av, 4)
            vo = max(vo, 0.3)
            if (vin < 0) != (rng.random() < 0.1):
                vo = -vo
            P = dict(vo=vo, vdrop=_r(rng.uniform(0.0, min(0.5, 0.2 * abs(vo))), 3), ig=rng.choice([0.0, _r(_lg(rng, 1e-6, 5e-3), 3)]),
                     iis=rng.choice([0.0, _r(_lg(rng, 1e-7, 1e-5), 3)]), rt=rng.choice([0.0, _r(_lg(rng, 1, 50), 3)]))
            if tab():
                g0 = _lg(rng, 1e-6, 5e-3)
                P["ig"] = table(rng, "ig", lambda io, vi: g0 * (1 + 3 * io / imax) * (1 + 0.01 * vi), av, imax)
            if vin and rng.random() < 0.12:
                # a regulator in drop-out: |vo| < |Vin| < |vo| + vdrop, its output follows the input at |Vin| - vdrop
                u = rng.uniform(0.7, 0.9)
                P["vo"] = math.copysign(max(_r(u * av, 4), 0.3), vo)
                P["vdrop"] = _r(min((av - abs(P["vo"])) * rng.uniform(1.3, 2.5), 0.9 * abs(P["vo"])), 4)     # (vdrop < |vo|)
            elif vin and rng.random() < 0.05:
                # a regulator without head-room at all: |Vin| <= vdrop < |vo|, its output is 0 V although it is on
                P["vo"] = math.copysign(_r(1.6 * av, 4), vo)
                P["vdrop"] = _r(1.2 * av, 4)
            self.vest[name] = math.copysign(min(abs(P["vo"]), max(av - P["vdrop"], 0.0)), vo) if vin else 0.0
        elif cls in ("PSwitch", "PMux"):
            rs = rng.choice([0.0, _r(_lg(rng, 1e-3, 0.06 * av / imax), 3)])
            P = dict(rs=rs, ig=rng.choice([0.0, _r(_lg(rng, 1e-7, 1e-3), 3)]), iis=rng.choice([0.0, _r(_lg(rng, 1e-7, 1e-5), 3)]),
                     rt=rng.choice([0.0, _r(_lg(rng, 1, 50), 3)]))
            if cls == "PMux" and rng.random() < 0.5:
                P["rs"] = [rng.choice([0.0, _r(_lg(rng, 1e-3, 0.06 * av / imax), 3)]) for _ in range(4)]
            if tab():
                g0 = _lg(rng, 1e-7, 1e-3)
                P["ig"] = table(rng, "ig", lambda io, vi: g0 * (1 + io / imax) * (1 + 0.01 * vi), av, imax)
            self.vest[name] = vin
        elif cls == "Rectifier":
            if rng.random() < 0.5:
                vd = _r(rng.uniform(0.05, min(0.6, 0.06 * av)), 3)
                P = dict(vdrop=vd, rt=rng.choice([0.0, _r(_lg(rng, 1, 50), 3)]))
                if tab():
                    P["vdrop"] = table(rng, "vdrop", lambda io, vi: vd * (0.6 + 0.5 * io / imax) + 0.0005 * vi, av, imax)
            else:
                P = dict(rs=rng.choice([0.0, _r(_lg(rng, 1e-3, 0.03 * av / imax), 3)]), ig=rng.choice([0.0, _r(_lg(rng, 1e-7, 1e-3), 3)]),
                         iq=rng.choice([0.0, _r(_lg(rng, 1e-7, 1e-4), 3)]), rt=rng.choice([0.0, _r(_lg(rng, 1, 50), 3)]))
                if tab():
                    g0 = _lg(rng, 1e-7, 1e-3)
                    P["ig"] = table(rng, "ig", lambda io, vi: g0 * (1 + io / imax) * (1 + 0.01 * vi), av, imax)
            self.vest[name] = abs(vin)
        if self.overload and rng.random() < self.overload:
            f = 10 ** rng.uniform(1, 4)
            if cls == "PLoad":
                P["pwr"] = _r(P["pwr"] * f, 4)
            elif cls == "ILoad":
                P["ii"] = _r(P["ii"] * f, 4)
            elif cls == "RLoad":
                P["rs"] = _r(P["rs"] / f, 4) or 1e-3
            elif cls in ("RLoss", "PSwitch", "Source") or (cls == "PMux" and not isinstance(P["rs"], list)) \
                    or (cls == "Rectifier" and "rs" in P):
                P["rs"] = _r((P["rs"] or 0.05) * f, 4)
            elif cls == "VLoss" and not isinstance(P["vdrop"], dict):
                P["vdrop"] = _r((P["vdrop"] or 0.1) * f, 4)
        if "rt" in P and cls != "Source" and rng.random() < 0.03:
            P["rt"] = _r(_lg(rng, 1e8, 1e10), 3)
        # the number type of a parameter must not matter: now and then an int (when the value is integral) or a numpy float
        for k, v in list(P.items()):
            if isinstance(v, float) and rng.random() < 0.06:
                P[k] = int(v) if v == int(v) and abs(v) < 1e6 and k != "eff" else __import__("numpy").float64(v)
        lim = self.limits(cls, name, rng) if self.limits else None
        self.made[name] = {"cls": cls, "limits": copy.deepcopy(lim)}    # (a copy: a constructor must not be trusted to leave its argument alone)
        return {"cls": cls, "name": name, "params": P, "limits": lim}

    def phase_value(self, cls, rng=None):
        rng = rng or self.rng
        if cls != "RLoad" and rng.random() < 0.12:
            return 0.0          # a load explicitly configured to draw nothing in a phase
        if cls == "PLoad":
            return _r(_lg(rng, 1e-5, 2.0), 4)
        if cls == "ILoad":
            # a current written with a minus sign is a magnitude, as in the constructor (only ILoad: the sign of a
            # phase power / resistance is outside the modelled inputs)
            return _r(_lg(rng, 1e-6, 0.3), 4) * (-1.0 if rng.random() < self.negphase else 1.0)
        return _r(_lg(rng, 20, 1e5), 4)


LIMKEYS = {
    "Source": ["io", "po", "pl"], "PLoad": ["vi", "ii", "tr", "tp"], "ILoad": ["vi", "pi", "tr", "tp"],
    "RLoad": ["vi", "ii", "pi", "tr", "tp"],
    "Converter": ["vi", "vo", "ii", "io", "pi", "po", "pl", "tr", "tp"],
}
ALLKEYS = ["vi", "vo", "vd", "ii", "io", "pi", "po", "pl", "tr", "tp"]


def applicable_limits(cls, name, rng, p=0.3):
    """random limits on the keys that apply to the kind only (C12: the document stores those)"""
    lim = random_limits(cls, name, rng, p)
    if not lim:
        return None
    keys = LIMKEYS.get(cls, ALLKEYS)
    lim = {k: v for k, v in lim.items() if k in keys}
    return lim or None


def random_limits(cls, name, rng, p=0.3):
    """random limit dictionary: any subset of the applicable keys (and sometimes a key that does not
    apply), [min, max] in the range of the quantity, either sign convention"""
    keys = LIMKEYS.get(cls, ALLKEYS)
    lim = {}
    for k in ALLKEYS:
        if rng.random() > (p if k in keys else 0.05):
            continue
        if k in ("vi", "vo"):
            lo, hi = rng.choice([0.0, _r(_lg(rng, 0.1, 8), 3)]), _r(_lg(rng, 1, 80), 3)
        elif k == "vd":
            lo, hi = rng.choice([0.0, _r(_lg(rng, 0.01, 1), 3)]), _r(_lg(rng, 0.05, 20), 3)
        elif k in ("ii", "io"):
            lo, hi = rng.choice([0.0, _r(_lg(rng, 1e-6, 1e-2), 3)]), _r(_lg(rng, 1e-4, 2), 3)
        elif k in ("pi", "po", "pl"):
            lo, hi = rng.choice([0.0, _r(_lg(rng, 1e-6, 1e-2), 3)]), _r(_lg(rng, 1e-4, 10), 3)
        elif k == "tr":
            lo, hi = 0.0, _r(_lg(rng, 0.05, 60), 3)
        else:
            lo, hi = _r(rng.uniform(-60, 30), 3), _r(rng.uniform(20, 130), 3)
        if k != "tp" and rng.random() < 0.15:
            lo, hi = -lo, -hi
        lim[k] = [lo, hi]
    return lim or None
