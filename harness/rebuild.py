"""Build a fresh System from a projected abstract state (canonical order: sources, then every
component after all of its parents), using only the public API.  Used for replay files and for
the 'same as a system built from scratch' clauses of C16 / C12."""
import warnings

from decwire import undec, unpwire
from model import build


def desc_of(c):
    params = {k: unpwire(v) for k, v in c["pay"]["params"].items() if k != "type"}
    if c["cls"] == "Rectifier":
        # constructor arguments of the two rectifier modes
        if c["pay"]["params"].get("type", {}).get("v") == "diode":
            params = {k: v for k, v in params.items() if k in ("vdrop", "rt")}
    if c["cls"] == "Source":
        params.pop("rt", None)
    lim = {k: [float(undec(x)) for x in v] for k, v in c["pay"]["limits"]}
    return {"cls": c["cls"], "name": c["name"], "params": params, "limits": lim or None}


def conf_of(pc):
    if pc["t"] == "map":
        return {k: float(undec(v)) for k, v in pc["v"]}
    if pc["t"] == "list":
        return list(pc["v"])
    return None


def rebuild(st, order=None, sysname=None):
    """order: optional permutation key (function name -> sort key) for sibling / source order"""
    from sysloss.system import System

    comps = {c["name"]: c for c in st["comps"]}
    key = order or (lambda n: n)
    names = sorted(comps, key=key)
    srcs = [n for n in names if not comps[n]["par"]]
    done = []
    with warnings.catch_warnings():
        warnings.simplefilter("ignore")
        c0 = comps[srcs[0]]
        s = System(sysname or st.get("sysname", "sys"), build(desc_of(c0)), group=c0["group"], rail=c0["rail"])
        done.append(srcs[0])
        for n in srcs[1:]:
            c = comps[n]
            s.add_source(build(desc_of(c)), group=c["group"], rail=c["rail"])
            done.append(n)
        rest = [n for n in names if n not in done]
        while rest:
            progressed = False
            for n in list(rest):
                c = comps[n]
                if all(p in done for p in c["par"]):
                    parent = list(c["par"]) if (len(c["par"]) > 1 or c["cls"] == "PMux") else c["par"][0]
                    s.add_comp(parent, comp=build(desc_of(c)), group=c["group"], rail=c["rail"])
                    done.append(n)
                    rest.remove(n)
                    progressed = True
            if not progressed:
                raise ValueError("cannot order components: %r" % rest)
        if st["sysph"]:
            s.set_sys_phases({p["name"]: float(undec(p["dur"])) for p in st["sysph"]})
        for n in names:
            pc = conf_of(comps[n]["pconf"])
            if pc is not None:
                s.set_comp_phases(n, pc)
    return s
