"""Component factory shared by all drivers: a component description
{"cls", "name", "params", "limits"} <-> a real sysloss component object."""
import warnings

import sysloss.components as C

CLASSES = ["Source", "PLoad", "ILoad", "RLoad", "RLoss", "VLoss", "Converter", "LinReg",
           "PSwitch", "PMux", "Rectifier"]


def build(desc):
    cls = getattr(C, desc["cls"])
    kw = dict(desc.get("params", {}))
    if desc.get("limits") is not None:
        kw["limits"] = desc["limits"]
    with warnings.catch_warnings():
        warnings.simplefilter("ignore")
        return cls(desc["name"], **kw)


def canon_params(cls, pay):
    """deterministic, always solvable parameters for the abstract (class, payload version) pairs
    of the edit model; `pay` only has to make two versions distinguishable"""
    p = int(pay)
    return {
        "Source": dict(vo=24.0 + p, rs=0.05),
        "PLoad": dict(pwr=0.25 + 0.05 * p, pwrs=0.001, rt=10.0),
        "ILoad": dict(ii=0.02 + 0.01 * p, iis=0.0005),
        "RLoad": dict(rs=150.0 + 10.0 * p),
        "RLoss": dict(rs=0.25 + 0.05 * p, rt=5.0),
        "VLoss": dict(vdrop=0.3 + 0.05 * p),
        "Converter": dict(vo=5.0 + p, eff=0.9, iq=1e-3, iis=1e-5),
        "LinReg": dict(vo=3.3 + 0.1 * p, vdrop=0.2, ig=2e-3, iis=1e-5),
        "PSwitch": dict(rs=0.05 + 0.01 * p, ig=1e-5, iis=1e-6),
        "PMux": dict(rs=[0.1 + 0.01 * p, 0.2, 0.3, 0.4], ig=2e-5, iis=1e-6),
        "Rectifier": dict(vdrop=0.4 + 0.05 * p),
    }[cls]


def canon_desc(cls, name, pay):
    return {"cls": cls, "name": name, "params": canon_params(cls, pay), "limits": None}
