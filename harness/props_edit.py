"""C14 / C15 (and the structural parts of C16 / C17): the edit state machine.

MC   : MCEdit.tla checked exhaustively by TLC (WellFormed, RejectedUnchanged).
CONF : (a) every accepted and a sample (thorough: many) of the rejected transitions of the
           labelled state graph of a bounded instance, applied to the real library from every
           abstract state;  (b) simulated histories of SimEdit.tla (all 11 classes, 8 names);
       every call recorded and judged by TLC against TraceEdit.tla.
"""
import hashlib
import json
import re

import tlc
import drv_edit
from record import Recorder
from check import Result, conclude


def _mc(ctx, res, cfg, name, timeout=3000):
    m = tlc.run_mc("MCEdit.tla", cfg, ctx.work, timeout=timeout)
    m["name"] = name
    res.mc.append(m)
    if not m["ok"]:
        if re.search(r"(Invariant \w+ is violated|Action property \w+ is violated|Temporal properties were violated)", m["out"]):
            k = m["out"].find("Error:")
            res.mc_failures.append("%s\n%s" % (cfg, m["out"][k:k + 6000]))
        else:
            raise tlc.TLCError("model checking of %s failed:\n%s" % (cfg, m["out"][-3000:]))
    return m


def _digest(x):
    return hashlib.sha1(json.dumps(x, sort_keys=True).encode()).hexdigest()[:16]


def edit_campaign(ctx, reports=0.0, analyses=None, sim=True, graph=True, mc=True, repo=True):
    res = Result()
    q = ctx.quick
    if mc:
        if q:
            _mc(ctx, res, "MCEditQ.cfg", "MCEdit 3 names, rails {'',b}")
        else:
            _mc(ctx, res, "MCEdit3.cfg", "MCEdit 3 names, rails {'',r,b}")
            _mc(ctx, res, "MCEditP.cfg", "MCEdit 2 names, groups/payloads/phases")
            _mc(ctx, res, "MCEdit4.cfg", "MCEdit 4 names", timeout=6000)
    if mc:
        # the implementation-grain model (node slots, registries, raw parent references; spec/SysImpl.tla) refines SysTree
        for cfg, name, to in ([("MCImpl.cfg", "SysImpl refines SysTree: 3 names, rails {'',b}", 1500)] +
                              ([] if q else [("MCImpl4.cfg", "SysImpl refines SysTree: 4 names, reference lists up to 3", 7200)])):
            m = tlc.run_mc("MCImpl.tla", cfg, ctx.work, timeout=to, workers=8)
            m["name"] = name
            res.mc.append(m)
            if not m["ok"]:
                if re.search(r"(Invariant \w+ is violated|refinement of SysTree violated)", m["out"]):
                    k = m["out"].find("Error:")
                    res.mc_failures.append("%s\n%s" % (cfg, m["out"][k:k + 6000]))
                else:
                    raise tlc.TLCError("model checking of %s failed:\n%s" % (cfg, m["out"][-3000:]))
    rec = Recorder(reports=reports, rng=ctx.rng)
    rec.install()
    try:
        if graph:
            cfg = "MCEdit2.cfg" if q else "MCEditQ.cfg"
            inits, edges, nodes, cnt = tlc.run_dump("MCEdit.tla", cfg, ctx.work)
            gst = drv_edit.replay_graph(rec, inits, edges, nodes, ctx.rng, max_states=None,
                                        rej_per_state=25 if q else 60)
            gst["graph_cfg"] = cfg
            gst["graph_transitions"] = sum(len(v) for v in edges.values())
            res.extra["graph_replay"] = gst
            del edges, nodes
        if sim:
            num, depth = (250, 14) if q else (1200, 30)
            behs, _ = tlc.run_sim("SimEdit.tla", "SimEdit.cfg", ctx.work, num=num, depth=depth, seed=ctx.seed + 1)
            n = drv_edit.replay_sim(rec, behs, analyses=analyses)
            res.extra["sim_replay"] = {"behaviours": len(behs), "depth": depth, "calls": n}
            # histories concentrated on the PMux and its inputs
            mnum, mdepth = (150, 16) if q else (700, 30)
            mb, _ = tlc.run_sim("SimEdit.tla", "SimMux.cfg", ctx.work, num=mnum, depth=mdepth, seed=ctx.seed + 2)
            # delete-then-regrow histories (freed node indices re-used by inner nodes)
            rb, _ = tlc.run_sim("SimEdit.tla", "SimReuse.cfg", ctx.work, num=mnum // 2, depth=13, seed=ctx.seed + 3)
            mb = mb + rb
            n2 = drv_edit.replay_sim(rec, mb, analyses=analyses)
            res.extra["mux_sim_replay"] = {"behaviours": len(mb), "depth": mdepth, "calls": n2}
    finally:
        rec.uninstall()
    traces = rec.dump()
    if repo:
        # every call the repository's own test-suite makes, recorded from a scratch copy of /repo/tests
        import repotests
        rt = repotests.for_checks()
        traces += rt["traces"]
        res.extra["repository_suite"] = {"pytest": rt["pytest"], "traces": len(rt["traces"]),
                                         "calls": sum(len(t["events"]) for t in rt["traces"])}
    res.add_traces(traces)
    verd, stat, states = tlc.validate("TraceEdit.tla", "TraceEdit.cfg", tlc.split(traces, tlc.NCPU), ctx.work)
    res.verd, res.stat = verd, stat
    res.extra["trace_validation_states"] = states
    return res


def _samples(res, want, n=5):
    out = []
    for t in res.traces.values():
        for ev in t["events"]:
            if want(ev):
                out.append({"op": ev["op"], "args": ev["args"], "outcome": ev["outcome"], "exc": ev.get("exc", "")})
                if len(out) >= n:
                    return out
    return out


def run_c14(ctx):
    res = edit_campaign(ctx)
    posts = set()
    for t in res.traces.values():
        for ev in t["events"]:
            if not ev["after"]["same"]:
                posts.add(_digest(ev["after"]["st"]))
    res.extra["distinct_nontrivial"] = len(posts)
    res.samples = _samples(res, lambda e: e["op"] in ("change_comp", "del_comp", "add_comp") and e["outcome"] == "ok")
    rule = ("every edit call of every replayed TLC behaviour (all accepted + sampled rejected transitions of the "
            "bounded state graph from every abstract state, and simulated histories over 11 classes / 8 names); "
            "distinct_nontrivial = distinct projected post-states on which the well-formedness conjuncts were evaluated")
    res.assumptions = ["projection reads System._g and _g.attrs (names, rails, groups, phase_conf, pnames)",
                       "argument universes of MCEdit*.cfg / SimEdit.cfg; reference lists of length <= 3; '' is not a reference"]
    return conclude("C14", ctx, res, rule=rule)


def run_c15(ctx):
    res = edit_campaign(ctx, reports=0.08 if ctx.quick else 0.03)
    rej = set()
    for t in res.traces.values():
        for i, ev in enumerate(t["events"]):
            if ev["op"] in drv_edit_ops() and ev["outcome"] == "exc":
                rej.add(_digest([t["tid"] if not ev.get("from0") else "b", ev["op"], ev["args"], ev.get("exc")]))
    res.extra["distinct_nontrivial"] = len(rej)
    res.samples = _samples(res, lambda e: e["outcome"] == "exc")
    rule = ("every call that raised, in every replayed TLC behaviour; state projection compared before/after by TLC "
            "(C15.Unchanged.State) and, on a random subset, digests of params(limits=True)/phases()/save()/tree()/solve() "
            "(C15.Unchanged.Reports); distinct_nontrivial = distinct (op, arguments, exception) of rejected calls")
    res.assumptions = ["deep projection of System._g and _g.attrs is the whole mutable state of a System",
                       "exception class is recorded, not judged, for edit calls"]
    return conclude("C15", ctx, res, rule=rule)


def drv_edit_ops():
    return ("add_source", "add_comp", "change_comp", "del_comp", "set_sys_phases", "set_comp_phases")


def replay_edit(ctx, path):
    """re-execute a recorded edit trace against the current tree and re-validate it"""
    from decwire import unwire, unpwire, undec
    from model import build

    with open(path) as f:
        body = json.load(f)
    prop = body["property"]
    rec = Recorder()
    rec.install()
    try:
        s = None
        marked = None
        for ev in body["trace"]["events"]:
            op, a = ev["op"], ev["args"]

            def mk(c):
                from rebuild import desc_of
                return build(desc_of(c))
            if op == "new":
                from sysloss.system import System
                s = System("sys", mk(a["comp"]), rail=a["rail"], group=a["group"])
                continue
            if op in ("init", "from_file"):
                print("replay: trace starts from a projected state (op=%s); cannot rebuild from calls" % op)
                return 2
            if op == "mark":
                rec.mark(s)
                marked = s
                continue
            tgt = rec.branch(marked) if ev.get("from0") and marked is not None else s
            try:
                if op == "add_source":
                    tgt.add_source(mk(a["comp"]), rail=a["rail"], group=a["group"])
                elif op == "add_comp":
                    tgt.add_comp(list(a["refs"]) if a["aslist"] else a["refs"][0], comp=mk(a["comp"]), rail=a["rail"], group=a["group"])
                elif op == "change_comp":
                    tgt.change_comp(a["target"], comp=mk(a["comp"]), rail=a["rail"], group=a["group"])
                elif op == "del_comp":
                    tgt.del_comp(a["target"], del_childs=a["delchilds"])
                elif op == "set_sys_phases":
                    tgt.set_sys_phases({p["name"]: float(undec(p["dur"])) for p in a["phases"]})
                elif op == "set_comp_phases":
                    c = a["conf"]
                    conf = {k: float(undec(v)) for k, v in c["v"]} if c["t"] == "map" else (list(c["v"]) if c["t"] == "list" else ({} if c["t"] == "none" else ("p",)))
                    tgt.set_comp_phases(a["ref"], conf)
                elif hasattr(tgt, op):
                    getattr(tgt, op)()
            except Exception as e:
                print("replay: %s raised %s: %s" % (op, type(e).__name__, e))
    finally:
        rec.uninstall()
    res = Result()
    res.add_traces(rec.dump())
    res.verd, res.stat, _ = tlc.validate("TraceEdit.tla", "TraceEdit.cfg", [rec.dump()], ctx.work)
    bad = [v for v in res.verd if v["clause"].startswith(prop + ".")]
    for v in bad:
        print("replay: clause %s fails at event %d (%s)" % (v["clause"], v["k"], v["op"]))
    print("replay: %s" % ("property violated" if bad else "no violation on the current tree"))
    return 1 if bad else 0


REGISTRY = {
    "C14": {"run": run_c14, "replay": replay_edit},
    "C15": {"run": run_c15, "replay": replay_edit},
}
