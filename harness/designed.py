"""Systems with a designed steady state: node voltages and load currents are chosen first, the
component parameters are derived from them (rs = dV / Io, pwr = V * I, ...), so the solution is
known and every series element drops only a modest fraction of its input (<= 6 % per element,
<= 25 % along a path).  Used for the completeness half of C03."""
import math

from gen import _lg, _r


def design(sysstate, rng, iscale=1.0, imin=1e-5):
    """sysstate: final TLC state of a SpecBuild behaviour ({comps, par, ...}); returns
    (list of component descriptions in build order with parent references, designed values)"""
    comps = sysstate["comps"]
    par = {n: list(p) for n, p in sysstate["par"].items()}
    order, seen = [], set()
    names = sorted(comps)
    while len(order) < len(names):
        for n in names:
            if n not in seen and all(p in seen for p in par[n]):
                order.append(n)
                seen.add(n)
    kids = {n: [c for c in names if par[c] and par[c][0] == n] for n in names}   # supplied children (first input)
    cls = {n: comps[n]["cls"] for n in names}
    vin, vout, drop, extra = {}, {}, {}, {}
    SER = ("RLoss", "VLoss", "PSwitch", "PMux", "Rectifier")
    diode = {n: rng.random() < 0.5 for n in names if cls[n] == "Rectifier"}
    # does the component draw current from its supply?  (pure series drops only pass current on)
    draws = {}
    for n in reversed(order):
        if cls[n] in ("RLoss", "VLoss") or (cls[n] == "Rectifier" and diode[n]) or cls[n] == "Source":
            draws[n] = any(draws[k] for k in kids[n])
        else:
            draws[n] = True
    loaded = {n: any(draws[k] for k in kids[n]) for n in names}
    for n in order:
        c = cls[n]
        if c == "Source":
            vs = _r(_lg(rng, 3.0, 60.0), 4) * (-1 if rng.random() < 0.2 else 1)
            d = rng.uniform(0.0, 0.03) if loaded[n] and rng.random() < 0.6 else 0.0
            vin[n], vout[n], drop[n] = vs, vs * (1 - d), d
            continue
        vi = vout[par[n][0]]
        vin[n] = vi
        pd = drop.get(par[n][0], 0.0)
        if c in SER:
            d = rng.uniform(0.0, 0.06) if loaded[n] and rng.random() < 0.8 else 0.0
            if c == "Rectifier" and diode[n] and d == 0.0 and loaded[n]:
                d = rng.uniform(0.005, 0.05)
            if 1 - (1 - pd) * (1 - d) > 0.25:
                d = 0.0
            drop[n] = 1 - (1 - pd) * (1 - d)
            vout[n] = (abs(vi) if c == "Rectifier" else vi) * (1 - d)
        elif c == "Converter":
            vout[n] = _r(_lg(rng, 0.8, 48.0), 4) * (-1 if rng.random() < 0.15 else 1)
            drop[n] = 0.0
        elif c == "LinReg":
            vout[n] = _r(rng.uniform(0.3, 0.9) * abs(vi), 4) * (-1 if (vi < 0) != (rng.random() < 0.1) else 1)
            drop[n] = 0.0
        else:
            vout[n] = 0.0
    iin, iout, P = {}, {}, {}
    for n in reversed(order):
        c = cls[n]
        io = sum(iin[k] for k in kids[n])
        iout[n] = io
        av, ao = abs(vin[n]), abs(vout[n])
        rt = rng.choice([0.0, _r(_lg(rng, 1, 50), 3)])
        if c == "Source":
            iin[n] = io
            P[n] = dict(vo=vin[n], rs=(abs(vin[n]) - ao) / io if io > 0 else 0.0)
        elif c in ("PLoad", "ILoad", "RLoad"):
            i = _lg(rng, imin, 0.2) * iscale      # iscale: the same design with every current scaled (resistances follow)
            iin[n] = i
            P[n] = {"PLoad": dict(pwr=av * i, rt=rt), "ILoad": dict(ii=i, rt=rt), "RLoad": dict(rs=av / i, rt=rt)}[c]
            if c == "ILoad":
                iin[n] = P[n]["ii"]
        elif c == "RLoss":
            iin[n] = io
            P[n] = dict(rs=(av - ao) / io if io > 0 else _r(_lg(rng, 1e-3, 1), 3), rt=rt)
        elif c == "VLoss":
            iin[n] = io
            P[n] = dict(vdrop=av - ao, rt=rt)
        elif c in ("PSwitch", "PMux"):
            ig = _r(_lg(rng, 1e-7, 1e-3), 3) * iscale
            iin[n] = io + ig
            P[n] = dict(rs=(av - ao) / io if io > 0 else _r(_lg(rng, 1e-3, 1), 3), ig=ig, rt=rt)
        elif c == "Rectifier":
            if diode[n] and av - ao > 0:
                iin[n] = io
                P[n] = dict(vdrop=(av - ao) / 2, rt=rt)
            else:
                ig, iq = _r(_lg(rng, 1e-7, 1e-3), 3) * iscale, _r(_lg(rng, 1e-7, 1e-4), 3) * iscale
                iin[n] = io + ig if io > 0 else iq
                P[n] = dict(rs=(av - ao) / (2 * io) if io > 0 else 0.0, ig=ig, iq=iq, rt=rt)
        elif c == "Converter":
            eff, iq = _r(rng.uniform(0.6, 0.98), 3), _r(_lg(rng, 1e-6, 1e-3), 3) * iscale
            iin[n] = ao * io / (av * eff) if io > 0 else iq
            P[n] = dict(vo=vout[n], eff=eff, iq=iq, rt=rt)
        elif c == "LinReg":
            ig = _r(_lg(rng, 1e-6, 5e-3), 3) * iscale
            iin[n] = io + ig
            P[n] = dict(vo=vout[n], vdrop=_r(rng.uniform(0.0, min(0.5, 0.5 * (av - ao), 0.9 * ao)), 3), ig=ig, rt=rt)
    descs = [{"cls": cls[n], "name": n, "params": P[n], "limits": None, "par": par[n],
              "rail": comps[n]["rail"], "group": comps[n]["group"]} for n in order]
    designed = {n: {"vin": vin[n], "vout": vout[n], "iin": iin[n], "iout": iout[n]} for n in order}
    return descs, designed


def build_designed(descs):
    import warnings
    from sysloss.system import System
    from model import build

    with warnings.catch_warnings():
        warnings.simplefilter("ignore")
        s = None
        for d in descs:
            c = build(d)
            if s is None:
                s = System("designed", c, rail=d["rail"], group=d["group"])
            elif d["cls"] == "Source":
                s.add_source(c, rail=d["rail"], group=d["group"])
            else:
                parent = list(d["par"]) if len(d["par"]) > 1 else d["par"][0]
                s.add_comp(parent, comp=c, rail=d["rail"], group=d["group"])
    return s
