"""Projection of a live sysloss.System onto the abstract state of spec/SysTree.tla.

Reads the anchors the properties name (graph `_g`, node payloads, the name-keyed registries in
`_g.attrs`) and never raises on an ill-formed concrete state: whatever does not fit the abstract
state is listed under "anom" so that the specification (WellFormed / report relations) judges it.
"""
from decwire import excname
import io
import json
import os
import contextlib
import hashlib
import tempfile

from decwire import wire, dec, cell, pwire


def comp_pay(comp):
    """payload of one component object: constructor-normalised parameters, applicable limits"""
    from sysloss.components import LIMITS_DEFAULT

    params = {k: v for k, v in comp._params.items() if k != "name"}
    lim = []
    try:
        for k in comp._get_limits():
            if k in comp._limits and comp._limits[k] != LIMITS_DEFAULT[k]:
                lim.append([k, [cell(x) for x in comp._limits[k]]])
    except Exception as e:  # pragma: no cover - defensive
        lim = [["error", str(e)]]
    return {"params": {k: pwire(v) for k, v in params.items()}, "limits": lim}


def conf_wire(c):
    if isinstance(c, dict):
        if not c:
            return {"t": "none", "v": []}
        return {"t": "map", "v": [[str(k), cell(v)] for k, v in c.items()]}
    if isinstance(c, list):
        return {"t": "list", "v": [wire(x) for x in c]}
    return {"t": "bad", "v": []}


def comp_desc(comp):
    return {"name": comp._params["name"], "cls": type(comp).__name__, "pay": comp_pay(comp)}


def node_of(s, ref):
    """node index of the component a reference (component name or rail name) denotes, -1 for none - resolved from the
    name and rail registries by the harness itself (the library's own helper is not part of what is observed)"""
    at = s._g.attrs
    if not isinstance(ref, str):
        return -1
    if ref in at["nodes"]:
        return at["nodes"][ref]
    if ref == "":
        return -1
    for name, rail in at["rails"].items():
        if rail == ref and name in at["nodes"]:
            return at["nodes"][name]
    return -1


DEGRADED = {"mux_order_from_save": 0}
QUIET = []          # installed recorders (objects with a .depth counter: calls made while it is > 0 are not recorded)


def _mux_order_public(s):
    """declared input order of every mux from the public save() document ({mux name: [input names]}) - used only when
    the private parent-order registry is not where the anchors say it is"""
    import json
    import os
    import tempfile
    fd, path = tempfile.mkstemp(suffix=".json", prefix="sl_pj_")
    os.close(fd)
    try:
        for r in QUIET:          # (this save() is the projection's own business: no installed recorder may log it as a call)
            r.depth += 1
        try:
            s.save(path)
        finally:
            for r in QUIET:
                r.depth -= 1
        with open(path) as f:
            doc = json.load(f)
    finally:
        try:
            os.unlink(path)
        except OSError:
            pass
    return {k: list(v["parents"]) for k, v in doc.items() if isinstance(v, dict) and "parents" in v}


def _refs(reg, idx):
    """the ordered parent references the registry holds for node idx, as a list (any sequence type), else None"""
    try:
        r = reg.get(idx) if hasattr(reg, "get") else reg[idx]
    except Exception:
        return None
    if isinstance(r, (list, tuple)):
        return list(r)
    return None


def project(s):
    g = s._g
    at = g.attrs
    anom = []
    pub_order = None
    if "pnames" not in at:
        # the parent-order registry is not there (an internal re-organisation): the declared order is taken from the
        # public save() document instead - reduced coverage (C14.WF.ParentRefs cannot be judged), recorded, never an alarm
        DEGRADED["mux_order_from_save"] += 1
        try:
            pub_order = _mux_order_public(s)
        except Exception:
            pub_order = {}
    nodes = at["nodes"]
    idxs = list(g.node_indices())
    seen = {}
    for name, idx in nodes.items():
        if idx in seen:
            anom.append(["name", "two-keys-one-node", name])
        seen[idx] = name
        if idx not in idxs:
            anom.append(["name", "key-without-node", name])
    pnames_seen = set()
    comps = []
    for idx in idxs:
        c = g[idx]
        name = c._params["name"]
        if name in pnames_seen:
            anom.append(["name", "duplicate-component-name", name])
        pnames_seen.add(name)
        if nodes.get(name) != idx:
            anom.append(["name", "node-not-registered", name])
        if name not in at["rails"]:
            anom.append(["name", "rail-registry-missing", name])
        for reg in ("groups", "phase_conf"):
            if name not in at[reg]:
                anom.append(["aux", reg + "-missing", name])
        preds = list(g.predecessor_indices(idx))
        pn = [g[p]._params["name"] for p in preds]
        if len(preds) > 1 and pub_order is not None:
            want = pub_order.get(name)
            if isinstance(want, list) and sorted(want) == sorted(pn):
                pn = list(want)
            else:
                pn = sorted(pn)
                anom.append(["pnames", "stale-parent-order", name])
        elif pub_order is not None:
            pass
        elif len(preds) > 1:
            refs = _refs(at["pnames"], idx)
            ok = False
            if refs is not None and len(refs) == len(preds):
                try:
                    # a reference is a component / rail name, or (another representation of the same registry) a node index
                    ridx = [r if isinstance(r, int) and not isinstance(r, bool) else node_of(s, r) for r in refs]
                    ok = sorted(ridx) == sorted(preds)
                except Exception:
                    ok = False
            if ok:
                pn = [g[p]._params["name"] for p in ridx]
            else:
                # the registry does not describe the edges in a form the projection reads: what the public save() document
                # says decides - only if that is inconsistent too is the parent order stale
                want = None
                try:
                    want = _mux_order_public(s).get(name)
                except Exception:
                    want = None
                if isinstance(want, list) and sorted(want) == sorted(pn):
                    DEGRADED["mux_order_from_save"] += 1
                    pn = list(want)
                else:
                    pn = sorted(pn)
                    anom.append(["pnames", "stale-parent-order", name])
        elif len(preds) == 1:
            # a mux declared with several references of which only one edge survives
            refs = _refs(at["pnames"], idx)
            if refs is not None and len(refs) > 1:
                anom.append(["pnames", "more-references-than-edges", name])
        comps.append(
            {
                "name": name,
                "cls": type(c).__name__,
                "pay": comp_pay(c),
                "rail": at["rails"].get(name, ""),
                "group": at["groups"].get(name, ""),
                "par": pn,
                "pconf": conf_wire(at["phase_conf"].get(name, {})),
            }
        )
    for reg, cat in (("rails", "name"), ("groups", "aux"), ("phase_conf", "aux")):
        for k in at[reg]:
            if k not in pnames_seen:
                anom.append([cat, reg + "-key-without-component", k])
    comps.sort(key=lambda c: c["name"])
    sysph = [{"name": str(k), "dur": cell(v)} for k, v in at["phases"].items()]
    return {"sysname": at["name"], "comps": comps, "sysph": sysph, "anom": sorted(anom)}


# ----------------------------------------------------------------------------------------------
# reports through the public API only


IPR_DATA = ("_x", "_y", "_fx", "_fxy", "_xmin", "_xmax", "_ymin", "_ymax")
REGISTRIES = ("name", "nodes", "rails", "groups", "phase_conf", "pnames", "phases")


def deep_digest(s):
    """digest of everything reachable from the System that an analysis could scribble on: node
    payloads (params, limits, interpolation arrays), registries, phase tables"""
    import numpy as np

    def canon(x):
        if isinstance(x, dict):
            return {str(k): canon(v) for k, v in sorted(x.items(), key=lambda kv: str(kv[0]))}
        if isinstance(x, (list, tuple)):
            return [canon(v) for v in x]
        if isinstance(x, np.ndarray):
            return [canon(v) for v in x.tolist()]
        if isinstance(x, (float, np.floating)):
            return repr(float(x))
        return repr(x) if not isinstance(x, (str, int, bool, type(None))) else x
    g = s._g
    nodes = {}
    for idx in g.node_indices():
        c = g[idx]
        ipr = getattr(c, "_ipr", None)
        # the interpolator's table data (the attributes that hold it today); anything else it may keep - a memo of the last
        # lookup, a lazily built triangulation - is private working state, not "the system"
        iprd = {k: canon(v) for k, v in vars(ipr).items() if k in IPR_DATA} if ipr is not None else None
        nodes[str(idx)] = {"cls": type(c).__name__, "params": canon(c._params), "limits": canon(c._limits), "ipr": iprd}
    # the registries that ARE the system (DESIGN 1); derived tables an analysis may cache next to them are not
    attrs = {k: canon(v) for k, v in g.attrs.items() if k in REGISTRIES}
    edges = sorted([list(g.get_edge_endpoints_by_index(e)) for e in g.edge_indices()])
    return digest({"nodes": nodes, "attrs": attrs, "edges": edges})


def df_canon(df):
    """DataFrame -> list of row dicts with numbers in wire format (None for a None report)"""
    if df is None:
        return "None"
    rows = []
    cols = list(df.columns)
    for rec in df.itertuples(index=False, name=None):
        rows.append({c: wire(v) for c, v in zip(cols, rec)})
    return rows


def capture_tree(s, name=""):
    buf = io.StringIO()
    with contextlib.redirect_stdout(buf):
        s.tree(name) if name else s.tree()
    return buf.getvalue()


def save_doc(s):
    fd, path = tempfile.mkstemp(suffix=".json", prefix="sl_")
    os.close(fd)
    try:
        s.save(path)
        with open(path) as f:
            return json.load(f)
    finally:
        os.unlink(path)


def digest(obj):
    return hashlib.sha1(json.dumps(obj, sort_keys=True, default=str).encode()).hexdigest()[:16]


def report_digests(s, solve=True):
    """digests of every report the C15/C17 clauses compare; an exception is part of the digest"""
    out = {}

    def run(key, fn):
        try:
            out[key] = digest(fn())
        except Exception as e:
            out[key] = "exc:" + excname(e)

    run("params", lambda: df_canon(s.params(limits=True)))
    run("phases", lambda: df_canon(s.phases()))
    run("save", lambda: save_doc(s))
    run("tree", lambda: capture_tree(s))
    if solve:
        run("solve", lambda: df_canon(s.solve()))
    return out
