"""Regenerates /verif/known_findings.json (committed; never written by a check at run time).
open  = genuine defect recorded, not repaired: suppresses exactly the violations its matcher explains
fixed = repaired by the named "fix:" commit in /repo: suppresses nothing, kept as a record
Every entry is spelled out in this file; nothing is loaded from elsewhere."""
import json
import os
import subprocess

ROOT = os.path.dirname(os.path.dirname(os.path.abspath(__file__)))
LOG = subprocess.run(["git", "-C", "/repo", "log", "--format=%h %s"], capture_output=True, text=True).stdout.splitlines()
F = []


def commit(msgkey):
    for l in LOG:
        if msgkey in l:
            return l.split()[0]
    raise KeyError(msgkey)


def fixed(fid, prop, msgkey, what, clauses, matcher=""):
    c = commit(msgkey)
    F.append({"id": fid, "property": prop, "status": "fixed", "commit": c, "what": what, "clauses": clauses,
              "matcher": matcher, "record": "fixed: property=%s %s %s" % (prop, c, what)})


def openf(fid, prop, what, clauses, matcher, reproducer):
    F.append({"id": fid, "property": prop, "status": "open", "what": what, "clauses": clauses, "matcher": matcher,
              "reproducer": reproducer})


F1 = ("Source with negative vo and rs > 0: the terminal voltage vo - rs*Io grows in magnitude with load instead of dropping "
      "(pinned by tests/unit/test_comp_arith.py::test_source['test 2'], so it cannot be repaired with the suite unedited)")
F1R = "System(Source('neg', vo=-12, rs=1)) + ILoad(ii=1): Vout = -13 V, the load receives 13 W from a 12 W source; with an RLoad the iteration diverges to inf"
openf("F1", "C01", F1, ["C01.Law.Vout"], "negative_source_with_rs", F1R)
openf("F1", "C02", "consequence of F1: " + F1, ["C02.Energy.Row", "C02.Energy.System", "C02.Energy.TotalRow", "C02.LossRange", "C02.Eff"], "negative_source_with_rs", F1R)
openf("F1", "C03", "consequence of F1: " + F1 + "; positive feedback can diverge to an inf/nan table that numpy.allclose accepts",
      ["C03.SourceNoGain", "C03.Residual.Vout", "C03.Residual.Iin", "C03.FindsModest", "C03.NoNaN", "C03.Finite",
       "C03.Sweep.Machine", "C03.PassiveNoGain"], "negative_source_with_rs", F1R)
openf("F1", "C06", "consequence of F1: " + F1, ["C06.NoConfig", "C06.ActiveList"], "negative_source_with_rs", F1R)
openf("F1", "C11", "consequence of F1: " + F1, ["C11.PassiveNoGain", "C11.LossNonNeg", "C11.EffLe100"], "negative_source_with_rs", F1R)

openf("F19", "C03", "solve() raises 'Unstable system' from its initial current guess (a Converter starts at iq, a LinReg at ig(0,0), an ILoad at ii) "
      "in the first sweep, although a steady state exists in which the series element drops only a few percent",
      ["C03.FindsModest"], "unstable_from_initial_guess",
      "Source(13 V) -> RLoss(146708 Ohm) -> Converter(vo=41.76, eff=0.678, iq=355 uA) -> ILoad(0.5 uA): steady state at 2.7 % drop, solve() raises ValueError in sweep 1")

openf("F16", "C03", "Rectifier(rs=[...]) is accepted (the docstring documents 'float | list') but every solve() of a system containing it raises TypeError "
      "instead of returning or raising RuntimeError / ValueError; a per-input list has no obvious meaning on a bridge, so no repair is attempted",
      ["C03.ExcClass"], "rectifier_rs_list", "System(Source(12 V)) + Rectifier('R', rs=[0.1, 0.2]) + ILoad(0.1 A): solve() raises TypeError")

fixed("F4", "C15", "del_comp rejects a rail name", "del_comp(<rail name>) removed the node and its children, then raised KeyError (half-deleted system)",
      ["C15.Unchanged.State", "C15.Unchanged.Reports"], "del_comp_rail_target")
fixed("F4", "C14", "del_comp rejects a rail name", "del_comp(<rail name>) left registry entries without a node and, with del_childs=False, a non-source root",
      ["C14.WF.NameRegistry", "C14.WF.RootsAreSources"], "del_comp_rail_target")
fixed("F5", "C16", "set_comp_phases stores", "set_comp_phases(<rail name>, ...) stored the configuration under the rail key: shadowed later configurations by name, survived the component, leaked into save()",
      ["C16.Structure", "C16.NoAuxAnomaly"], "set_comp_phases_by_rail")
fixed("F6", "C14", "cannot carry the existing childs", "change_comp() replaced a component that has children by a load (load with children)",
      ["C14.WF.LoadLeaf", "C14.WF.LinkAcceptable"], "change_to_load_with_children")
fixed("F7", "C14", "checks a new rail name also", "change_comp() with unchanged name accepted a rail that is another component's rail, another component's name or its own name",
      ["C14.WF.UniqueRails", "C14.WF.NamesRailsDisjoint"], "change_same_name_rail")
fixed("F17", "C14", "cannot create a second PMux", "change_comp() turned an ordinary component into a second PMux", ["C14.WF.OneMux"], "change_to_second_mux")
fixed("F14", "C02", "reports ambient as its peak", "a component without supply reported peak temperature 0.0 instead of ambient", ["C02.Thermal.Peak"])
fixed("F10", "C05", "selected PMux input as the mux", "the PMux row named the parent of the selected input (blank for a source) as Parent / Rail in", ["C05.Parent", "C05.RailIn"])
fixed("F11", "C07", "attributes each component to the source of its own parent",
      "Domain carried over from the previously emitted row: components attributed to the wrong source depending on construction order", ["C07.Domain", "C07.Subsystem.Loss"])
fixed("F15", "C08", "skips a rail that feeds nothing", "rail_rep() raised IndexError when a rail feeds components in some phases only", ["C08.NoException"])
fixed("F18", "C08", "keeps the warning of a rail whose components agree", "rail_rep() dropped the warning text of a rail whose components all carry the same warning (e.g. a single component)", ["C08.Warnings"])
fixed("F13", "C03", "raise when overloaded", "overloaded source resistance / PSwitch / PMux / MOSFET rectifier returned inverted or amplified voltages, or an inf/nan table accepted as converged",
      ["C03.PassiveNoGain", "C03.SourceNoGain", "C03.Finite", "C03.NoNaN"])
fixed("F2", "C12", "passes the diode drop", "from_file() did not pass vdrop to a loaded Rectifier: a diode bridge reloaded as a 0 Ohm MOSFET bridge", ["C12.State", "C12.Solve"])
fixed("F11b", "C12", "phases() attributes each component", "the Domain column of phases() depended on construction order (changed across save/from_file)", ["C12.Phases", "C16.SameAsFresh.Phases"])
fixed("F8", "C16", "input list valid when an input is renamed", "renaming a PMux input (or changing the rail it was referenced by) through change_comp left a stale reference: solve()/rail_rep()/save() raised OverflowError, phases() KeyError",
      ["C16.ReportsSucceed.Solve", "C16.NoAuxAnomaly", "C16.Structure"], "rename_mux_input")
fixed("F9", "C16", "input list valid when an input is deleted", "del_comp(<PMux input>, del_childs=False) re-linked the mux in the graph but left the deleted name in its ordered input list",
      ["C16.ReportsSucceed.Solve", "C16.NoAuxAnomaly", "C16.Structure"], "del_mux_input_keep_children")
fixed("F20", "C16", "phases() lists Rectifier", "phases() omitted Rectifier components", ["C16.LiveComponents.phases"])
fixed("F12", "C17", "restores the battery source when a callback", "batt_life() left the probed voltage/resistance in the battery Source when a callback or the solver raised", ["C17.BattRestored"])
fixed("F3", "C11", "magnitude of a negative on-resistance", "PMux(rs<0) / Rectifier(rs<0) kept the negative resistance: output above input, negative loss, efficiency above 100 %",
      ["C11.Stored", "C11.Normalises", "C11.PassiveNoGain", "C11.LossNonNeg", "C11.EffLe100"])
fixed("F21", "C19", "make_hdiag tolerates a loss that is negative", "make_hdiag() raised ValueError (RGBA range) when a component reports a loss that is negative by a rounding error (0 Ohm switch / mux)",
      ["C19.Renders"])
fixed("F22", "C16", "does not wire a PMux twice", "del_comp(<mux input>, del_childs=False) whose parent already is an input of the mux (by name or by rail) left two references to "
      "the same component in the mux's input list and a parallel edge in the graph (drawn twice by make_diag)", ["C16.NoAuxAnomaly", "C16.SameAsFresh.Diag", "C14.WF.ParentRefs"])

json.dump({"_comment": "open = genuine defect recorded, not repaired (suppresses exactly the matching violations); "
                       "fixed = repaired by the named fix: commit in /repo (suppresses nothing)", "findings": F},
          open(os.path.join(ROOT, "known_findings.json"), "w"), indent=1)
print(len(F), "entries")
