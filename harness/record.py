"""Run-time recorder: wraps the public methods of sysloss.system.System inside the harness
process (no source change) and turns every call into one trace event

  {"op", "args", "outcome": "ok"|"exc", "exc": <class name>, "after": <projection> | "=",
   "rep0"/"rep1": report digests before/after (optional), "result": <table> (optional)}

Events of one System object form one trace; nested calls (rail_rep -> solve, from_file ->
add_comp) are not logged.  `after == "="` is a log compression: the projection is byte-identical
to the previously logged one of that object.
"""
from decwire import excname
import contextlib
import copy
import functools
import json

from project import project, comp_desc, conf_wire, report_digests, df_canon, deep_digest, digest
from decwire import wire, cell

EDIT_OPS = ["add_source", "add_comp", "change_comp", "del_comp", "set_sys_phases", "set_comp_phases"]
ANALYSES = ["solve", "rail_rep", "params", "limits", "phases", "tree", "save", "plot_interp",
            "batt_life", "get_sys_phases"]


def _is_comp(x):
    return hasattr(x, "_params") and isinstance(getattr(x, "_params"), dict) and "name" in x._params


def _desc_or_bad(x):
    if _is_comp(x):
        try:
            return comp_desc(x), True
        except Exception:
            pass
    return {"name": "?", "cls": "?" + type(x).__name__, "pay": 0}, False


def edit_args(op, a, kw):
    """abstract arguments of an edit call; second value False = outside the modelled input classes"""
    ok = True
    try:
        if op == "add_source":
            src = a[0] if a else kw["source"]
            d, ok = _desc_or_bad(src)
            rail, group = kw.get("rail", ""), kw.get("group", "")
            ok = ok and isinstance(rail, str) and isinstance(group, str)
            return {"comp": d, "rail": rail, "group": group}, ok
        if op == "add_comp":
            parent = a[0] if a else kw["parent"]
            d, ok = _desc_or_bad(kw["comp"])
            aslist = isinstance(parent, list)
            refs = parent if aslist else [parent]
            ok = ok and all(isinstance(r, str) and r != "" for r in refs) and len(refs) <= 4
            rail, group = kw.get("rail", ""), kw.get("group", "")
            ok = ok and isinstance(rail, str) and isinstance(group, str)
            return {"refs": [r if isinstance(r, str) else repr(r) for r in refs], "aslist": aslist,
                    "comp": d, "rail": rail, "group": group}, ok
        if op == "change_comp":
            target = a[0] if a else kw["name"]
            d, ok = _desc_or_bad(kw["comp"])
            rail, group = kw.get("rail", ""), kw.get("group", "")
            ok = ok and isinstance(target, str) and target != "" and isinstance(rail, str)
            return {"target": target if isinstance(target, str) else repr(target), "comp": d,
                    "rail": rail, "group": group}, ok
        if op == "del_comp":
            target = a[0] if a else kw["name"]
            dc = kw.get("del_childs", True)
            ok = isinstance(target, str) and target != "" and isinstance(dc, bool)
            return {"target": target if isinstance(target, str) else repr(target), "delchilds": bool(dc)}, ok
        if op == "set_sys_phases":
            ph = a[0] if a else kw["phases"]
            ok = isinstance(ph, dict) and all(isinstance(k, str) for k in ph)
            if not ok:
                return {"phases": []}, False
            return {"phases": [{"name": k, "dur": cell(v)} for k, v in ph.items()]}, ok
        if op == "set_comp_phases":
            ref = a[0] if a else kw["name"]
            conf = a[1] if len(a) > 1 else kw["phase_conf"]
            ok = isinstance(ref, str) and ref != ""
            return {"ref": ref if isinstance(ref, str) else repr(ref), "conf": conf_wire(conf)}, ok
    except Exception:
        return {}, False
    return {}, False


class Recorder:
    def __init__(self, reports=False, results=False, rep_solve=True, rng=None):
        self.traces = {}      # tid -> list of events
        self.meta = {}
        self.next_tid = 0
        self.depth = 0
        self.reports = reports      # log report digests around edit calls (True / probability)
        self.rng = rng
        self.results = results      # log analysis results (tables)
        self.rep_solve = rep_solve
        self.deep = False           # log deep digests of the system and of mutable arguments around analyses
        self._orig = {}
        self.installed = False
        import project as _pj
        if self in _pj.QUIET:
            _pj.QUIET.remove(self)

    # -- trace bookkeeping -----------------------------------------------------------------
    def _new_trace(self, s, first_event, origin=""):
        tid = self.next_tid
        self.next_tid += 1
        s._vf_tid = tid
        s._vf_last = json.dumps(first_event["after"]["st"], sort_keys=True)
        self.traces[tid] = [first_event]
        self.meta[tid] = origin
        return tid

    def adopt(self, s, origin="init"):
        """start a trace from the present state of an existing System"""
        return self._new_trace(s, {"op": "init", "args": {}, "outcome": "ok", "after": {"same": False, "st": project(s)}}, origin)

    def fork(self, s, origin="fork"):
        c = copy.deepcopy(s)
        self.adopt(c, origin)
        return c

    @contextlib.contextmanager
    def paused(self):
        """calls made inside are not recorded"""
        self.depth += 1
        try:
            yield
        finally:
            self.depth -= 1

    def mark(self, s):
        """no-op event: the state reached here is the pre-state of all later from0 events"""
        self.traces[s._vf_tid].append({"op": "mark", "args": {}, "outcome": "ok", "after": {"same": True}})

    def branch(self, s):
        """deep copy whose events are appended to the same trace, each marked "from0": its
        pre-state is the state after the first event of the trace, not the previous event"""
        c = copy.deepcopy(s)
        c._vf_branch = True
        return c

    def _after(self, s):
        pj = project(s)
        js = json.dumps(pj, sort_keys=True)
        if js == getattr(s, "_vf_last", None):
            return {"same": True}
        s._vf_last = js
        return {"same": False, "st": pj}

    # -- wrapping --------------------------------------------------------------------------
    def install(self):
        from sysloss.system import System

        if self.installed:
            return
        rec = self
        import project as _pj
        if self not in _pj.QUIET:
            _pj.QUIET.append(self)

        def wrap_init(orig):
            @functools.wraps(orig)
            def init(s, name, source, *a, **kw):
                rec.depth += 1
                try:
                    orig(s, name, source, *a, **kw)
                except Exception:
                    rec.depth -= 1
                    raise
                rec.depth -= 1
                if rec.depth == 0:
                    d, ok = _desc_or_bad(source)
                    ev = {"op": "new", "args": {"comp": d, "rail": kw.get("rail", ""), "group": kw.get("group", "")},
                          "outcome": "ok", "after": {"same": False, "st": project(s)}}
                    rec._new_trace(s, ev, "new")
            return init

        def wrap_edit(op, orig):
            @functools.wraps(orig)
            def f(s, *a, **kw):
                if rec.depth > 0 or not hasattr(s, "_vf_tid"):
                    return orig(s, *a, **kw)
                args, modelled = edit_args(op, a, kw)
                ev = {"op": op, "args": args, "outcome": "ok"}
                if not modelled:
                    ev["unmodelled"] = True
                if getattr(s, "_vf_branch", False):
                    ev["from0"] = True
                rec.depth += 1
                dorep = rec.reports is True or (rec.reports and rec.rng is not None and rec.rng.random() < rec.reports)
                if dorep:
                    try:
                        ev["rep0"] = report_digests(s, rec.rep_solve)
                    except BaseException:
                        rec.depth -= 1
                        raise
                try:
                    return orig(s, *a, **kw)
                except Exception as e:
                    ev["outcome"] = "exc"
                    ev["exc"] = excname(e)
                    raise
                finally:
                    rec.depth -= 1
                    ev["after"] = rec._after(s)
                    if dorep:
                        rec.depth += 1
                        try:
                            ev["rep1"] = report_digests(s, rec.rep_solve)
                        finally:
                            rec.depth -= 1
                    rec.traces[s._vf_tid].append(ev)
            return f

        def wrap_analysis(op, orig):
            @functools.wraps(orig)
            def f(s, *a, **kw):
                if rec.depth > 0 or not hasattr(s, "_vf_tid"):
                    return orig(s, *a, **kw)
                ev = {"op": op, "args": {"a": [wire(x) if isinstance(x, (str, int, float, bool)) else "obj" for x in a],
                                          "kw": {k: (wire(v) if isinstance(v, (str, int, float, bool)) else "obj")
                                                 for k, v in kw.items()} or {"_": 0}},
                      "outcome": "ok"}
                if rec.deep:
                    ev["deep0"] = deep_digest(s)
                    objs = [x for x in list(a) + list(kw.values()) if isinstance(x, (dict, list))]
                    ev["args0"] = digest(repr(objs))
                rec.depth += 1
                try:
                    r = orig(s, *a, **kw)
                    if rec.results and op in ("solve", "rail_rep", "params", "limits", "phases"):
                        ev["result"] = df_canon(r)
                    return r
                except Exception as e:
                    ev["outcome"] = "exc"
                    ev["exc"] = excname(e)
                    ev["msg"] = str(e)[:120]
                    raise
                finally:
                    rec.depth -= 1
                    ev["after"] = rec._after(s)
                    if rec.deep:
                        ev["deep1"] = deep_digest(s)
                        ev["args1"] = digest(repr(objs))
                    rec.traces[s._vf_tid].append(ev)
            return f

        def wrap_from_file(orig):
            def from_file(cls, fname):
                rec.depth += 1
                try:
                    s = orig.__func__(cls, fname)
                finally:
                    rec.depth -= 1
                if rec.depth == 0:
                    rec._new_trace(s, {"op": "from_file", "args": {}, "outcome": "ok", "after": {"same": False, "st": project(s)}}, "from_file")
                return s
            return classmethod(from_file)

        self._orig["__init__"] = System.__init__
        System.__init__ = wrap_init(System.__init__)
        for op in EDIT_OPS:
            self._orig[op] = getattr(System, op)
            setattr(System, op, wrap_edit(op, getattr(System, op)))
        for op in ANALYSES:
            if hasattr(System, op):
                self._orig[op] = getattr(System, op)
                setattr(System, op, wrap_analysis(op, getattr(System, op)))
        self._orig["from_file"] = System.__dict__["from_file"]
        System.from_file = wrap_from_file(System.__dict__["from_file"])
        self.installed = True

    def uninstall(self):
        from sysloss.system import System

        for k, v in self._orig.items():
            setattr(System, k, v)
        self._orig = {}
        self.installed = False

    def dump(self):
        return [{"tid": t, "origin": self.meta.get(t, ""), "events": ev} for t, ev in sorted(self.traces.items())]
