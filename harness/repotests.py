"""Runs the repository's own test-suite from a scratch copy under the recorder (no source change):
every edit, analysis, solve() and rail_rep() the suite performs becomes a validated trace / case.
Executed in a child process (this file as a script) so that pytest state does not leak."""
import json
import os
import shutil
import subprocess
import sys
import tempfile

HERE = os.path.dirname(os.path.abspath(__file__))


def collect(timeout=900):
    """returns {"traces": [...], "solve_cases": [...], "pytest": summary line}"""
    tmp = tempfile.mkdtemp(prefix="sl_repotests_")
    try:
        shutil.copytree("/repo/tests", os.path.join(tmp, "tests"))
        out = os.path.join(tmp, "out.json")
        env = dict(os.environ, SYSLOSS_VERIF="1", MPLBACKEND="Agg", TQDM_DISABLE="1", VF_OUT=out)
        r = subprocess.run([sys.executable, os.path.abspath(__file__), os.path.join(tmp, "tests")], cwd=tmp, env=env,
                           capture_output=True, text=True, timeout=timeout)
        if not os.path.exists(out):
            return {"traces": [], "solve_cases": [], "pytest": "recorder run failed: " + (r.stdout + r.stderr)[-400:]}
        with open(out) as f:
            return json.load(f)
    finally:
        shutil.rmtree(tmp, ignore_errors=True)


TID0 = 5 * 10 ** 6


def _table_ok(p):
    """tabulated parameter inside the modelled class: |io| strictly increasing, |vi| distinct"""
    from decwire import undec
    if not isinstance(p, dict) or p.get("k") not in ("t1", "t2"):
        return True
    io = [abs(undec(x)) for x in p["io"]]
    vi = [abs(undec(x)) for x in p["vi"]]
    return all(a < b for a, b in zip(io, io[1:])) and len(set(vi)) == len(vi)


def for_checks(timeout=900):
    """the suite's traces / solve() cases with ids that cannot collide with generated ones; solve cases whose tables
    are outside the modelled class are dropped (counted)"""
    r = collect(timeout)
    traces = []
    for t in r["traces"]:
        t = dict(t, tid=TID0 + int(t["tid"]), origin="repository test-suite under the recorder")
        traces.append(t)
    cases, dropped = [], 0
    for c in r["solve_cases"]:
        ok = all(_table_ok(p) for comp in c["st"]["comps"] for p in comp["pay"]["params"].values())
        if not ok:
            dropped += 1
            continue
        c = dict(c, id=TID0 + len(cases), origin="repository test-suite under the recorder")
        cases.append(c)
    return {"traces": traces, "solve_cases": cases, "pytest": r["pytest"], "dropped_unmodelled": dropped}


def _child(testdir):
    sys.path.insert(0, HERE)
    import warnings
    warnings.simplefilter("ignore")
    import pytest
    from record import Recorder
    import drv_solve
    from project import project

    rec = Recorder()
    rec.deep = True
    rec.solve_cases = []

    class Plugin:
        def pytest_sessionstart(self, session):
            rec.install()
            from sysloss.system import System
            orig_solve, orig_rr = System.solve, System.rail_rep

            def solve(s, *a, **kw):
                top = rec.depth == 0
                df = orig_solve(s, *a, **kw)
                if top and not a:
                    try:
                        with rec.paused():
                            args = {k: v for k, v in kw.items() if k in ("phase", "ta", "vtol", "itol", "energy", "maxiter")}
                            c = drv_solve.solve_case.__wrapped__(s, len(rec.solve_cases), df, args) if hasattr(drv_solve.solve_case, "__wrapped__") \
                                else _case_from(s, len(rec.solve_cases), df, args)
                            rec.solve_cases.append(c)
                    except Exception:
                        pass
                return df
            System.solve = solve
            self._restore = (System, orig_solve)

    def _case_from(s, cid, df, kw):
        from decwire import cell
        args = {"phase": kw.get("phase", ""), "ta": cell(kw.get("ta", 25.0)), "vtol": cell(kw.get("vtol", 1e-6)),
                "itol": cell(kw.get("itol", 1e-6)), "energy": bool(kw.get("energy", False)), "maxiter": int(kw.get("maxiter", 10000)), "probe": False}
        return {"id": cid, "built": True, "st": project(s), "args": args, "kw": {}, "outcome": "ok", "exc": "", "msg": "",
                "table": drv_solve.table_wire(df), "rail": {"cols": ["none"], "rows": [], "isnone": True},
                "hasrail": False, "railexc": "", "has_design": False, "design": [], "haswant": False, "want": [], "wantlim": [], "hasedit": False, "edit": {"op": "", "args": {}, "pre": {"comps": [], "sysph": [], "anom": []}}, "has_slice": False,
                "slice_of": {"cols": ["none"], "rows": [], "isnone": True}}

    # the wrapper installed by the recorder records the call as an analysis event; the plugin above is installed
    # around it so that it sees the returned table
    plug = Plugin()
    rc = pytest.main(["-q", "-p", "no:cacheprovider", "-x", "--no-header", "-W", "ignore", testdir], plugins=[plug])
    traces = rec.dump()
    json.dump({"traces": traces, "solve_cases": rec.solve_cases, "pytest": "exit %s" % rc}, open(os.environ["VF_OUT"], "w"))


if __name__ == "__main__":
    _child(sys.argv[1])
