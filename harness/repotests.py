"""Runs the repository's own test-suite from a scratch copy under the recorder (no source change):
every edit, analysis, solve() and rail_rep() the suite performs becomes a validated trace / case.
Executed in a child process (this file as a script) so that pytest state does not leak."""
import json
import os
import shutil
import subprocess
import sys
import tempfile

HERE = os.path.dirname(os.path.abspath(__file__))


def collect(timeout=900):
    """returns {"traces": [...], "solve_cases": [...], "pytest": summary line}"""
    tmp = tempfile.mkdtemp(prefix="sl_repotests_")
    try:
        shutil.copytree("/repo/tests", os.path.join(tmp, "tests"))
        out = os.path.join(tmp, "out.json")
        env = dict(os.environ, SYSLOSS_VERIF="1", MPLBACKEND="Agg", TQDM_DISABLE="1", VF_OUT=out)
        r = subprocess.run([sys.executable, os.path.abspath(__file__), os.path.join(tmp, "tests")], cwd=tmp, env=env,
                           capture_output=True, text=True, timeout=timeout)
        if not os.path.exists(out):
            return {"traces": [], "solve_cases": [], "pytest": "recorder run failed: " + (r.stdout + r.stderr)[-400:]}
        with open(out) as f:
            return json.load(f)
    finally:
        shutil.rmtree(tmp, ignore_errors=True)


def _child(testdir):
    sys.path.insert(0, HERE)
    import warnings
    warnings.simplefilter("ignore")
    import pytest
    from record import Recorder
    import drv_solve
    from project import project

    rec = Recorder()
    rec.deep = True
    rec.solve_cases = []

    class Plugin:
        def pytest_sessionstart(self, session):
            rec.install()
            from sysloss.system import System
            orig_solve, orig_rr = System.solve, System.rail_rep

            def solve(s, *a, **kw):
                top = rec.depth == 0
                df = orig_solve(s, *a, **kw)
                if top and not a:
                    try:
                        with rec.paused():
                            args = {k: v for k, v in kw.items() if k in ("phase", "ta", "vtol", "itol", "energy", "maxiter")}
                            c = drv_solve.solve_case.__wrapped__(s, len(rec.solve_cases), df, args) if hasattr(drv_solve.solve_case, "__wrapped__") \
                                else _case_from(s, len(rec.solve_cases), df, args)
                            rec.solve_cases.append(c)
                    except Exception:
                        pass
                return df
            System.solve = solve
            self._restore = (System, orig_solve)

    def _case_from(s, cid, df, kw):
        from decwire import cell
        args = {"phase": kw.get("phase", ""), "ta": cell(kw.get("ta", 25.0)), "vtol": cell(kw.get("vtol", 1e-6)),
                "itol": cell(kw.get("itol", 1e-6)), "energy": bool(kw.get("energy", False)), "maxiter": int(kw.get("maxiter", 10000))}
        return {"id": cid, "st": project(s), "args": args, "kw": {}, "outcome": "ok", "exc": "", "msg": "",
                "table": drv_solve.table_wire(df), "rail": {"cols": ["none"], "rows": [], "isnone": True},
                "hasrail": False, "railexc": "", "has_design": False, "design": [], "has_slice": False,
                "slice_of": {"cols": ["none"], "rows": [], "isnone": True}}

    # the wrapper installed by the recorder records the call as an analysis event; the plugin above is installed
    # around it so that it sees the returned table
    plug = Plugin()
    rc = pytest.main(["-q", "-p", "no:cacheprovider", "-x", "--no-header", "-W", "ignore", testdir], plugins=[plug])
    traces = rec.dump()
    json.dump({"traces": traces, "solve_cases": rec.solve_cases, "pytest": "exit %s" % rc}, open(os.environ["VF_OUT"], "w"))


if __name__ == "__main__":
    _child(sys.argv[1])
