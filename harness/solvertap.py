"""Run-time tap on the solver loop: wraps System._solve / _fwd_prop / _back_prop inside the harness
process and records every sweep (iterate before, result after) of every run of the loop."""
import functools

from decwire import cell


class SolverTap:
    def __init__(self):
        self.runs = []
        self.cur = None
        self._orig = {}

    def install(self):
        from sysloss.system import System

        tap = self

        def names_of(s):
            return sorted(((idx, s._g[idx]._params["name"]) for idx in s._g.node_indices()))

        def vec(s, arr):
            return [cell(arr[idx]) for idx, _ in names_of(s)]

        @functools.wraps(System._solve)
        def _solve(s, vtol=1e-5, itol=1e-6, maxiter=10000, quiet=True, phase=""):
            run = {"names": [n for _, n in names_of(s)], "phase": phase,
                   "args": {"vtol": cell(vtol), "itol": cell(itol), "maxiter": int(maxiter)},
                   "sweeps": [], "end": None}
            outer, tap.cur = tap.cur, run
            try:
                v, i, iters, state = tap._orig["_solve"](s, vtol, itol, maxiter, quiet, phase)
                run["end"] = {"kind": "return" if iters <= maxiter else "raise",
                              "exc": "" if iters <= maxiter else "RuntimeError", "iters": int(iters),
                              "v": vec(s, v), "i": vec(s, i)}
                return v, i, iters, state
            except Exception as e:
                run["end"] = {"kind": "raise", "exc": type(e).__name__, "iters": len(run["sweeps"]), "v": [], "i": []}
                raise
            finally:
                tap.cur = outer
                tap.runs.append(run)

        @functools.wraps(System._fwd_prop)
        def _fwd_prop(s, v, i, phase="", state=[]):
            run = tap.cur
            sw = None
            if run is not None:
                sw = {"v0": vec(s, v), "i0": vec(s, i), "v1": [], "i1": [], "ok": False}
                run["sweeps"].append(sw)
            vo, ostate = tap._orig["_fwd_prop"](s, v, i, phase, state)
            if sw is not None:
                sw["v1"] = vec(s, vo)
            return vo, ostate

        @functools.wraps(System._back_prop)
        def _back_prop(s, v, i, phase="", state=[]):
            ii = tap._orig["_back_prop"](s, v, i, phase, state)
            run = tap.cur
            if run is not None and run["sweeps"]:
                run["sweeps"][-1]["i1"] = vec(s, ii)
                run["sweeps"][-1]["ok"] = True
            return ii

        for k, f in (("_solve", _solve), ("_fwd_prop", _fwd_prop), ("_back_prop", _back_prop)):
            self._orig[k] = getattr(System, k)
            setattr(System, k, f)

    def uninstall(self):
        from sysloss.system import System

        for k, f in self._orig.items():
            setattr(System, k, f)
        self._orig = {}

    def take(self):
        r, self.runs = self.runs, []
        return r
