"""Run-time tap on the solver loop: wraps System._solve / _fwd_prop / _back_prop inside the harness
process and records every sweep (iterate before, result after) of every run of the loop."""
from decwire import excname
import functools

from decwire import cell


class SolverTap:
    def __init__(self):
        self.runs = []
        self.cur = None
        self._orig = {}
        self.active = False
        self.broken = 0          # errors inside the tap itself (the run concerned is dropped)

    def install(self):
        from sysloss.system import System

        tap = self

        def names_of(s):
            return sorted(((idx, s._g[idx]._params["name"]) for idx in s._g.node_indices()))

        def vec(s, arr):
            return [cell(arr[idx]) for idx, _ in names_of(s)]

        self.active = all(callable(getattr(System, k, None)) for k in ("_solve", "_fwd_prop", "_back_prop"))
        if not self.active:
            # the loop is not where it used to be: nothing is wrapped, the sweep-level clauses are not evaluated (reduced
            # coverage, recorded in the evidence); the black-box clauses of C03 do not need the tap
            return
        import inspect
        sig = inspect.signature(System._solve)

        def bound(s, a, kw):
            """the arguments of a _solve call by name, whatever way they were passed"""
            try:
                b = sig.bind(s, *a, **kw)
                b.apply_defaults()
                return b.arguments
            except Exception:
                return {}

        def guarded(f):
            """observation must never change what the library does: an error inside the tap marks the run as broken"""
            def g(*a, **kw):
                try:
                    return f(*a, **kw)
                except Exception:
                    if tap.cur is not None:
                        tap.cur["broken"] = True
                    tap.broken += 1
                    return None
            return g

        @functools.wraps(System._solve)
        def _solve(s, *a, **kw):
            ar = bound(s, a, kw)
            run = {"names": [], "phase": ar.get("phase", ""),
                   "args": {"vtol": cell(ar.get("vtol", 1e-5)), "itol": cell(ar.get("itol", 1e-6)), "maxiter": int(ar.get("maxiter", 10000))},
                   "sweeps": [], "end": None, "broken": False}
            guarded(lambda: run.__setitem__("names", [n for _, n in names_of(s)]))()
            outer, tap.cur = tap.cur, run
            try:
                ret = tap._orig["_solve"](s, *a, **kw)

                def note():
                    v, i, iters = ret[0], ret[1], ret[2]
                    mx = run["args"]["maxiter"]
                    run["end"] = {"kind": "return" if iters <= mx else "raise",
                                  "exc": "" if iters <= mx else "RuntimeError", "iters": int(iters),
                                  "v": vec(s, v), "i": vec(s, i)}
                guarded(note)()
                return ret
            except Exception as e:
                run["end"] = {"kind": "raise", "exc": excname(e), "iters": len(run["sweeps"]), "v": [], "i": []}
                raise
            finally:
                tap.cur = outer
                if not run["broken"] and run["end"] is not None:
                    tap.runs.append(run)

        @functools.wraps(System._fwd_prop)
        def _fwd_prop(s, v, i, *a, **kw):
            run = tap.cur
            sw = None
            if run is not None and not run["broken"]:
                def pre():
                    d = {"v0": vec(s, v), "i0": vec(s, i), "v1": [], "i1": [], "ok": False}
                    run["sweeps"].append(d)
                    return d
                sw = guarded(pre)()
            ret = tap._orig["_fwd_prop"](s, v, i, *a, **kw)
            if sw is not None:
                guarded(lambda: sw.__setitem__("v1", vec(s, ret[0])))()
            return ret

        @functools.wraps(System._back_prop)
        def _back_prop(s, v, i, *a, **kw):
            ii = tap._orig["_back_prop"](s, v, i, *a, **kw)
            run = tap.cur
            if run is not None and not run["broken"] and run["sweeps"]:
                def post():
                    run["sweeps"][-1]["i1"] = vec(s, ii)
                    run["sweeps"][-1]["ok"] = True
                guarded(post)()
            return ii

        for k, f in (("_solve", _solve), ("_fwd_prop", _fwd_prop), ("_back_prop", _back_prop)):
            self._orig[k] = getattr(System, k)
            setattr(System, k, f)

    def uninstall(self):
        from sysloss.system import System

        for k, f in self._orig.items():
            setattr(System, k, f)
        self._orig = {}

    def take(self):
        r, self.runs = self.runs, []
        return r
