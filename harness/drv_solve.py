"""Numeric systems from TLC-generated construction histories, and recording of solve() /
rail_rep() results as validation cases for spec/TraceSolve.tla."""
from decwire import excname
import math
import warnings

from decwire import cell
from model import build
from project import node_of, project

COLMAP = {
    "Component": "comp", "Type": "type", "Parent": "parent", "Rail in": "railin", "Domain": "domain",
    "Group": "group", "Phase": "phase", "Vin (V)": "vin", "Vout (V)": "vout", "Rail out": "railout",
    "Iin (A)": "iin", "Iout (A)": "iout", "Power (W)": "pwr", "Loss (W)": "loss",
    "Efficiency (%)": "eff", "Temp. rise (°C)": "trise", "Peak temp. (°C)": "tpeak",
    "24h energy (Wh)": "energy", "Warnings": "warn",
    # rail report
    "Rail": "rail", "Voltage (V)": "volt", "Current (A)": "curr",
}
NUMCOLS = {"vin", "vout", "iin", "iout", "pwr", "loss", "eff", "trise", "tpeak", "energy", "volt", "curr"}
STRCOLS = {"comp", "type", "parent", "railin", "domain", "group", "phase", "railout", "warn", "rail"}


def table_wire(df):
    """DataFrame -> {"cols": [...], "rows": [...]} with short ASCII column keys; every row carries
    every known key (absent column: "" / blank cell) so that TLC can access fields uniformly"""
    if df is None:
        return {"cols": ["none"], "rows": [], "isnone": True}
    cols = [COLMAP.get(c, "tag:" + str(c)) for c in df.columns]
    rows = []
    for rec in df.itertuples(index=False, name=None):
        r = {k: "" for k in STRCOLS}
        r.update({k: [2, 0] for k in NUMCOLS})
        r["wtok"] = []
        for k, v in zip(cols, rec):
            if k in NUMCOLS:
                r[k] = cell(v)
            elif k in STRCOLS:
                r[k] = "" if (isinstance(v, float) and math.isnan(v)) else str(v)
                if k == "warn":
                    r["wtok"] = sorted(set(r[k].replace(",", " ").split()))
        rows.append(r)
    return {"cols": [c for c in cols if not c.startswith("tag:")], "rows": rows, "isnone": False}


class HarnessError(RuntimeError):
    """an exception raised by the harness' own code (not by the library): a machinery failure, never a verdict"""


def raised_by_harness(exc):
    """does the innermost frame of the exception's traceback belong to the harness (and not to the library or to one
    of its dependencies)?"""
    import os
    import traceback
    tb = traceback.extract_tb(exc.__traceback__)
    if not tb:
        return False
    here = os.path.dirname(os.path.abspath(__file__))
    # from the innermost frame outwards: the first frame that belongs either to the library or to the harness decides (an
    # error raised by pandas / numpy / pydot on behalf of harness code is the harness' error, one raised on behalf of
    # library code is the library's)
    for fr in reversed(tb):
        fn = os.path.abspath(fr.filename)
        if os.sep + "sysloss" + os.sep in fn:
            return False
        if os.path.dirname(fn) == here:
            return True
    return False


class GeneratorReject(Exception):
    """a component constructor refused the parameters the numeric generator produced: the generated case is dropped (and
    counted) - what constructors must accept is C11's matter (every constructor case of MCCtor is executed there), and a
    slip of the generator must never look like a refusal of the library"""


GENERATOR_REJECTS = []


def make(gen, cls, name, parents=None):
    try:
        return build(gen.desc(cls, name, parents) if parents is not None else gen.desc(cls, name))
    except Exception as e:
        if raised_by_harness(e):
            raise HarnessError("generator: %s %s: %s: %s" % (cls, name, type(e).__name__, e)) from e
        GENERATOR_REJECTS.append("%s: %s" % (cls, e))
        raise GeneratorReject("%s %s: %s" % (cls, name, e)) from e


class BuildFailure(Exception):
    """the library refused (or crashed on) a call of a construction history that the specification accepts"""

    def __init__(self, system, op, args, exc):
        if raised_by_harness(exc):
            raise HarnessError("%s%r: %s: %s" % (op, args, type(exc).__name__, exc)) from exc
        Exception.__init__(self, "%s%r: %s: %s" % (op, args, type(exc).__name__, exc))
        self.system, self.op, self.args_, self.exc = system, op, args, exc

    def case(self, cid, want=None):
        c = solve_case(None, cid)
        c["built"] = False
        c["outcome"], c["exc"], c["msg"] = "buildexc", excname(self.exc), ("%s: %s" % (self.op, self.exc))[:160]
        c["failed_call"] = {"op": self.op, "args": self.args_}
        if want is not None:
            c["want"], c["haswant"] = want, False
        return c


def build_system(states, gen, rng, sysname="sys", shared=None, first="a"):
    """build_system_once, drawing the numbers again (up to 6 times) when a constructor refused generated parameters"""
    last = None
    for _ in range(6):
        try:
            return build_system_once(states, gen, rng, sysname, shared, first)
        except GeneratorReject as e:
            last = e
    raise HarnessError("the numeric generator keeps producing parameters a constructor refuses: %s" % last)


def build_system_once(states, gen, rng, sysname="sys", shared=None, first="a"):
    """replay a SpecBuild behaviour with numeric components; returns the System.  Every call of such a behaviour
    is accepted by the specification (SysTree guards); a call the library refuses raises BuildFailure"""
    from sysloss.system import System

    def resolve(s, refs):
        out = []
        for r in refs:
            idx = node_of(s, r)
            out.append(s._g[idx]._params["name"] if idx != -1 else r)
        return out

    def apply(s, op, a):
        if op == "add_source":
            s.add_source(make(gen, "Source", a["comp"]["name"]), rail=a["rail"], group=a["group"])
        elif op == "add_comp":
            parents = resolve(s, a["refs"])
            c = make(gen, a["comp"]["cls"], a["comp"]["name"], parents)
            if a["aslist"] and shared is not None:
                # the caller keeps ONE list object for the parents and uses it for several systems
                parent = shared.setdefault(a["comp"]["name"], list(a["refs"]))
            else:
                parent = list(a["refs"]) if a["aslist"] else a["refs"][0]
            s.add_comp(parent, comp=c, rail=a["rail"], group=a["group"])
        elif op == "set_sys_phases":
            s.set_sys_phases({p["name"]: float("%.3g" % math.exp(rng.uniform(math.log(0.05), math.log(2000))))
                              for p in a["phases"]})
        elif op == "set_comp_phases":
            idx = node_of(s, a["ref"])
            cls = type(s._g[idx]).__name__
            phs = list(a["conf"]["v"])
            if cls in ("PLoad", "ILoad", "RLoad"):
                s.set_comp_phases(a["ref"], {p: gen.phase_value(cls) for p in phs})
            elif cls not in ("RLoss", "VLoss"):
                s.set_comp_phases(a["ref"], phs)

    with warnings.catch_warnings():
        warnings.simplefilter("ignore")
        # (the initial source of a renamed behaviour carries the renamed name)
        try:
            if first == "a" and states and "a" not in states[-1]["sys"]["comps"] and TRICKY["a"] in states[-1]["sys"]["comps"]:
                first = TRICKY["a"]
        except Exception:
            pass
        s = System(sysname, make(gen, "Source", first))
        for st in states:
            op, a = st["act"]["op"], st["act"]["a"]
            try:
                apply(s, op, a)
            except GeneratorReject:
                raise
            except Exception as e:
                raise BuildFailure(s, op, a, e)
    return s


EMPTY_ST = {"comps": [], "sysph": [], "anom": []}


def solve_case(s, cid, rail_rep=False, **kw):
    """one validation case: the projected state, the arguments and whatever solve() returned"""
    args = {"phase": kw.get("phase", ""), "ta": cell(kw.get("ta", 25.0)), "vtol": cell(kw.get("vtol", 1e-6)),
            "itol": cell(kw.get("itol", 1e-6)), "energy": bool(kw.get("energy", False)),
            "maxiter": int(kw.get("maxiter", 10000)), "probe": False}
    case = {"id": cid, "built": True, "st": project(s) if s is not None else EMPTY_ST, "args": args, "kw": {k: v for k, v in kw.items() if k not in ("tags",)}, "outcome": "ok", "exc": "", "msg": "",
            "table": {"cols": ["none"], "rows": [], "isnone": True},
            "rail": {"cols": ["none"], "rows": [], "isnone": True}, "hasrail": False, "railexc": "",
            "has_design": False, "design": [], "haswant": False, "want": [], "wantlim": [], "hasedit": False, "edit": {"op": "", "args": {}, "pre": EMPTY_ST},
            "has_slice": False, "slice_of": {"cols": ["none"], "rows": [], "isnone": True}}
    if s is None:
        return case
    import contextlib
    import io
    try:
        with warnings.catch_warnings(), contextlib.redirect_stdout(io.StringIO()):
            warnings.simplefilter("ignore")
            df = s.solve(**kw)
        case["table"] = table_wire(df)
    except Exception as e:
        case["outcome"], case["exc"], case["msg"] = "exc", excname(e), str(e)[:160]
        return case
    if rail_rep:
        try:
            with warnings.catch_warnings(), contextlib.redirect_stdout(io.StringIO()):
                warnings.simplefilter("ignore")
                rr = s.rail_rep(**kw)
            case["rail"] = table_wire(rr)
            case["hasrail"] = True
        except Exception as e:
            case["hasrail"] = True
            case["railexc"] = excname(e)
    return case


def want_of(sysst):
    """the configured system according to the TLC construction behaviour (final state of SpecBuild): what the
    projected state must show for rails, supply inputs, classes and phase configurations"""
    out = []
    for n, c in sysst["comps"].items():
        cf = sysst["pconf"][n]
        load = c["cls"] in ("PLoad", "ILoad", "RLoad")
        keys = list(cf["v"]) if cf["t"] in ("list", "map") else []
        if cf["t"] == "map":
            keys = [k[0] if isinstance(k, (list, tuple)) else k for k in keys]
        ct = "none" if cf["t"] == "none" else ("map" if load else "list")
        out.append({"name": n, "cls": c["cls"], "rail": c["rail"], "group": c["group"], "par": list(sysst["par"][n]),
                    "ct": ct, "ck": keys})
    return out


def wantlim_of(gen):
    """the limit dictionaries the generator handed to the constructors (C09: the limits in force are the configured ones)"""
    out = []
    for name, d in gen.made.items():
        if d.get("limits"):
            out.append({"name": name, "lims": [{"k": k, "lo": cell(v[0]), "hi": cell(v[1])} for k, v in d["limits"].items()]})
    return out


def move_leaf(s, rng):
    """del_comp of a childless component followed by add_comp of an equal component below another parent (the freed node
    index is re-used); returns a description, or None when the system has no such pair"""
    from rebuild import desc_of
    st = project(s)
    comps = {c["name"]: c for c in st["comps"]}
    haskids = {p for c in st["comps"] for p in c["par"]}
    leaves = [n for n, c in comps.items() if c["par"] and n not in haskids and c["cls"] != "PMux"]
    hosts = [n for n, c in comps.items() if c["cls"] not in ("PLoad", "ILoad", "RLoad")]
    rng.shuffle(leaves)
    for n in leaves:
        cand = [h for h in hosts if h != n and h not in comps[n]["par"]]
        if cand:
            h = rng.choice(cand)
            with warnings.catch_warnings():
                warnings.simplefilter("ignore")
                s.del_comp(n)
                s.add_comp(h, comp=build(desc_of(comps[n])), group=comps[n]["group"], rail=comps[n]["rail"])
            return "moved %s below %s" % (n, h)
    return None


TRICKY = {"a": "V", "b": "V 1", "c": "V 12", "d": "v", "e": "V 1 b", "f": "Sys", "g": "Subsys V", "h": "load.1",
          "i": "load.10", "j": "L-1", "k": "L_1", "l": "System total x"}


def rename_behaviour(states, mapping=TRICKY):
    """the same construction history with other component names: names that are prefixes of one another, differ in
    case only, contain blanks / dots, or resemble the names of the aggregate rows"""
    import copy
    m = lambda x: mapping.get(x, x)
    out = copy.deepcopy(states)
    for st in out:
        a = st["act"]["a"]
        if isinstance(a, dict):
            if "comp" in a:
                a["comp"]["name"] = m(a["comp"]["name"])
            if "refs" in a:
                a["refs"] = [m(r) for r in a["refs"]]
            if "ref" in a:
                a["ref"] = m(a["ref"])
            if "target" in a:
                a["target"] = m(a["target"])
        sy = st.get("sys")
        if isinstance(sy, dict) and "comps" in sy:
            sy["comps"] = {m(k): v for k, v in sy["comps"].items()}
            sy["par"] = {m(k): [m(x) for x in v] for k, v in sy["par"].items()}
            sy["pconf"] = {m(k): v for k, v in sy["pconf"].items()}
    return out
