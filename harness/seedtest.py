"""Evaluate one seeded change: /verif/seeded/<id>/{patch.diff, demo.py}.

The patch is applied to a scratch git worktree of /repo (outside /repo and /verif); the repository's own suite, the
demonstration and the requested checks all run against that copy through PYTHONPATH=<worktree>/src, with evidence and
replay files redirected to a scratch directory (VERIF_OUT), so /repo, /verif/evidence and /verif/replays are never
touched and several seeded changes can be evaluated at the same time.  The worktree is removed afterwards.  What was
observed is appended to seeded/<id>/meta.json.

usage: seedtest.py <id> [Cxx ...]            (default: the property named in meta.json)
       seedtest.py --all-checks <id>         (every check)
       seedtest.py --inplace <id> [Cxx ...]  (old behaviour: git -C /repo apply ... checkout)
"""
import concurrent.futures as cf
import json
import os
import re
import shutil
import subprocess
import sys
import tempfile
import time

ROOT = os.path.dirname(os.path.dirname(os.path.abspath(__file__)))
ALL = ["C%02d" % i for i in range(1, 21)]


def sh(cmd, **kw):
    return subprocess.run(cmd, shell=True, capture_output=True, text=True, **kw)


def run_check(p, env, tier="quick"):
    t0 = time.time()
    r = sh("cd %s && ./check %s --tier %s" % (env.get("VERIF_COPY", ROOT), p, tier), env=env)
    clauses = sorted(set(re.findall(r"^VIOLATION property=\S+ replay=\S+ clause=(\S+)", r.stdout, flags=re.M)))
    if r.returncode == 2:
        clauses = ["MACHINERY: " + (r.stdout + r.stderr)[-300:]]
    return p, r.returncode, clauses, round(time.time() - t0, 1)


def main():
    args = sys.argv[1:]
    inplace = "--inplace" in args
    allchecks = "--all-checks" in args
    args = [a for a in args if not a.startswith("--")]
    sid = args[0]
    d = os.path.join(ROOT, os.environ.get("SEED_DIR", "seeded"), sid)      # (SEED_DIR=neutral: behaviour-preserving changes)
    meta_path = os.path.join(d, "meta.json")
    meta = json.load(open(meta_path)) if os.path.exists(meta_path) else {}
    checks = args[1:] or (ALL if allchecks else [meta["property"]])
    seed = os.environ.get("VERIF_SEED", "0")
    demo = os.path.join(d, "demo.py")
    scratch = tempfile.mkdtemp(prefix="sl_seed_%s_" % sid)
    wt = os.path.join(scratch, "wt")
    env = dict(os.environ, VERIF_SEED=seed, VERIF_OUT=os.path.join(scratch, "out"))
    # the checks run from a private copy of /verif, so that editing /verif meanwhile cannot disturb them
    vcopy = os.path.join(scratch, "verif")
    sh("rsync -a --exclude .git --exclude replays --exclude evidence --exclude seeded --exclude neutral --exclude keep --exclude __pycache__ %s/ %s/" % (ROOT, vcopy))
    env["VERIF_COPY"] = vcopy
    try:
        if inplace:
            if sh("git -C /repo status --porcelain").stdout.strip():
                print("refusing: /repo is not clean")
                return 2
            src = "/repo"
        else:
            r = sh("git -C /repo worktree add --detach %s HEAD" % wt)
            if r.returncode:
                print("worktree:", r.stderr)
                return 2
            src = wt
            env["PYTHONPATH"] = os.path.join(wt, "src")
        has_demo = os.path.exists(demo)
        base_demo = sh("cd /tmp && /venv/bin/python %s" % demo, env=env).returncode if has_demo else None
        r = sh("git -C %s apply %s/patch.diff" % (src, d))
        if r.returncode:
            print("patch does not apply:", r.stderr)
            return 2
        try:
            tests = sh("cd %s && /venv/bin/python -m pytest -q -p no:cacheprovider tests 2>&1 | tail -1" % src, env=env).stdout.strip()
            with_demo = sh("cd /tmp && /venv/bin/python %s" % demo, env=env).returncode if has_demo else None
            # the library under test really is the patched copy
            where = sh("cd /tmp && /venv/bin/python -c 'import sysloss,os;print(os.path.dirname(sysloss.__file__))'", env=env).stdout.strip()
            results = {}
            with cf.ThreadPoolExecutor(max_workers=int(os.environ.get("SEED_JOBS", "3"))) as ex:
                for p, rc, clauses, wall in ex.map(lambda p: run_check(p, env), checks):
                    results[p] = {"exit": rc, "clauses": clauses, "wall_s": wall}
                    print(sid, p, "exit", rc, clauses[:6], flush=True)
        finally:
            if inplace:
                sh("git -C /repo checkout -- .")
    finally:
        if not inplace:
            sh("git -C /repo worktree remove --force %s" % wt)
            sh("git -C /repo worktree prune")
        shutil.rmtree(scratch, ignore_errors=True)
    meta.setdefault("runs", []).append({
        "when": time.strftime("%Y-%m-%d %H:%M"), "seed": seed, "library": where,
        "repo_tests_with_patch": tests, "demo_exit_without_patch": base_demo, "demo_exit_with_patch": with_demo,
        "checks": results})
    meta["detected_by"] = sorted({p for run in meta["runs"] for p, v in run["checks"].items() if v["exit"] == 1})
    last = {}
    for run in meta["runs"]:
        for p, v in run["checks"].items():
            last[p] = v["exit"]
    meta["detected_by_latest"] = sorted(p for p, e in last.items() if e == 1)
    meta["missed_by_target"] = last.get(meta.get("property")) != 1
    json.dump(meta, open(meta_path, "w"), indent=1)
    print(sid, "tests:", tests, "| demo without/with patch:", base_demo, with_demo, "| detected (latest runs) by", meta["detected_by_latest"])
    return 0


if __name__ == "__main__":
    sys.exit(main())
