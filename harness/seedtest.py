"""Evaluate one seeded change: /verif/seeded/<id>/{patch.diff, demo.py}.
Applies the patch to /repo (which must be clean), confirms that the repository's own suite still passes and that the
demonstration fails with the patch, runs the requested checks (default: all, three at a time), restores /repo, and
writes what was observed to seeded/<id>/meta.json.    usage: seedtest.py <id> [Cxx ...]"""
import concurrent.futures as cf
import json
import os
import re
import subprocess
import sys
import time

ROOT = os.path.dirname(os.path.dirname(os.path.abspath(__file__)))
ALL = ["C%02d" % i for i in range(1, 21)]


def sh(cmd, **kw):
    return subprocess.run(cmd, shell=True, capture_output=True, text=True, **kw)


def run_check(p):
    t0 = time.time()
    r = sh("cd %s && VERIF_SEED=%s ./check %s --tier quick" % (ROOT, os.environ.get("VERIF_SEED", "0"), p))
    clauses = sorted(set(re.findall(r"^VIOLATION property=\S+ replay=\S+ clause=(\S+)", r.stdout, flags=re.M)))
    return p, r.returncode, clauses, round(time.time() - t0, 1)


def main():
    sid = sys.argv[1]
    checks = sys.argv[2:] or ALL
    d = os.path.join(ROOT, "seeded", sid)
    meta_path = os.path.join(d, "meta.json")
    meta = json.load(open(meta_path)) if os.path.exists(meta_path) else {}
    if sh("git -C /repo status --porcelain").stdout.strip():
        print("refusing: /repo is not clean")
        return 2
    demo = os.path.join(d, "demo.py")
    base_demo = sh("cd /tmp && /venv/bin/python %s" % demo).returncode
    r = sh("git -C /repo apply %s/patch.diff" % d)
    if r.returncode:
        print("patch does not apply:", r.stderr)
        return 2
    try:
        tests = sh("cd /repo && /venv/bin/python -m pytest -q -p no:cacheprovider tests 2>&1 | tail -1").stdout.strip()
        with_demo = sh("cd /tmp && /venv/bin/python %s" % demo).returncode
        results = {}
        with cf.ThreadPoolExecutor(max_workers=int(os.environ.get("SEED_JOBS", "3"))) as ex:
            for p, rc, clauses, wall in ex.map(run_check, checks):
                results[p] = {"exit": rc, "clauses": clauses, "wall_s": wall}
                print(sid, p, "exit", rc, clauses[:6], flush=True)
    finally:
        sh("git -C /repo checkout -- .")
        sh("find %s/replays -type f -delete" % ROOT)
    meta.setdefault("runs", []).append({
        "when": time.strftime("%Y-%m-%d %H:%M"), "seed": os.environ.get("VERIF_SEED", "0"),
        "repo_tests_with_patch": tests, "demo_exit_without_patch": base_demo, "demo_exit_with_patch": with_demo,
        "checks": results})
    meta["detected_by"] = sorted({p for run in meta["runs"] for p, v in run["checks"].items() if v["exit"] == 1})
    meta["missed_by_target"] = meta.get("property") not in meta["detected_by"]
    json.dump(meta, open(meta_path, "w"), indent=1)
    print(sid, "tests:", tests, "| demo without/with patch:", base_demo, with_demo, "| detected by", meta["detected_by"])
    return 0


if __name__ == "__main__":
    sys.exit(main())
