"""Entry point of every registered check:   ./check <Cxx> [--tier quick|thorough] [--replay <file>]

exit 0 : the property held on everything explored (KNOWN-FINDING lines for listed findings)
exit 1 : at least one unlisted violation, each with  VIOLATION property=<id> replay=<path>
exit 2 : machinery failure (TLC error, unparsable output, ...) - never reported as a violation
"""
import argparse
import hashlib
import json
import os
import random
import shutil
import sys
import time
import traceback
import warnings

warnings.simplefilter("ignore")
os.environ.setdefault("MPLBACKEND", "Agg")
os.environ.setdefault("TQDM_DISABLE", "1")
HERE = os.path.dirname(os.path.abspath(__file__))
ROOT = os.path.dirname(HERE)
# evidence/ and replays/ are written below OUT (= /verif unless a seeded-change evaluation redirects them)
OUT = os.environ.get("VERIF_OUT") or ROOT
sys.path.insert(0, HERE)

import findings  # noqa: E402
import tlc  # noqa: E402


class Ctx:
    def __init__(self, prop, tier, seed):
        self.prop, self.tier, self.seed = prop, tier, seed
        self.rng = random.Random(seed)
        self.work = tlc.mkwork()
        self.t0 = time.time()
        self.quick = tier == "quick"

    def close(self):
        shutil.rmtree(self.work, ignore_errors=True)


class Result:
    """what a property check hands back to the framework"""

    def __init__(self):
        self.mc = []            # model checking runs: dicts(name, states, transitions, ok, ...)
        self.traces = {}        # tid -> trace (dict with events)
        self.verd = []          # failing clauses (dicts with tid, k, clause, op)
        self.stat = {}          # clause -> non-vacuous evaluations
        self.extra = {}         # additional coverage facts
        self.samples = []
        self.mc_failures = []   # text of TLC counterexamples (a violated invariant of the model itself)
        self.assumptions = []

    def add_traces(self, traces, offset=None):
        for t in traces:
            self.traces[t["tid"]] = t


def pre_state(trace, k):
    """projection in force before event k (1-based) of a trace"""
    evs = trace["events"]
    ev = evs[k - 1]
    if ev.get("from0"):
        stop = max(i for i in range(k - 1) if evs[i]["op"] == "mark" or i == 0)
        rng = range(stop, -1, -1)
    else:
        rng = range(k - 2, -1, -1)
    for i in rng:
        e = evs[i]
        if e.get("from0") and not ev.get("from0"):
            continue
        if not e["after"]["same"]:
            return e["after"]["st"]
    return None


def write_replay(prop, ctx, trace, verdict):
    os.makedirs(os.path.join(OUT, "replays"), exist_ok=True)
    evs = trace["events"]
    k = verdict["k"]
    ev = evs[k - 1]
    if trace.get("kind") == "solve":
        keep = [ev]
    elif ev.get("from0"):
        stop = max(i for i in range(k - 1) if evs[i]["op"] == "mark" or i == 0)
        keep = evs[: stop + 1] + [ev]
    else:
        keep = evs[:k]
    body = {"property": prop, "clause": verdict["clause"], "op": verdict["op"], "tier": ctx.tier, "seed": ctx.seed,
            "origin": trace.get("origin", ""), "kind": trace.get("kind", "edit"),
            "trace": {"tid": 0, "origin": trace.get("origin", ""), "events": keep}}
    h = hashlib.sha1(json.dumps(body, sort_keys=True).encode()).hexdigest()[:12]
    path = os.path.join(OUT, "replays", "%s-%s.json" % (prop, h))
    with open(path, "w") as f:
        json.dump(body, f)
    return path


def conclude(prop, ctx, res, level="model_checking", rule="", clause_prefix=None):
    """turn verdicts into exit code, VIOLATION / KNOWN-FINDING lines and the evidence file"""
    prefix = clause_prefix or (prop + ".")
    mine = [v for v in res.verd if v["clause"].startswith(prefix)]
    foreign = {}
    for v in res.verd:
        if not v["clause"].startswith(prefix) and not v["clause"].startswith("note."):
            foreign[v["clause"]] = foreign.get(v["clause"], 0) + 1
    known = findings.load()
    kf_hits, violations = {}, []
    for v in mine:
        tr = res.traces.get(v["tid"])
        ev = tr["events"][v["k"] - 1] if tr else None
        if tr and tr.get("kind") == "solve":
            pre = ev["st"]
        else:
            pre = pre_state(tr, v["k"]) if tr else None
        hit = None
        for e in known:
            if e["property"] == prop and ev is not None and findings.match(e, v, ev, pre):
                hit = e
                break
        if hit:
            kf_hits.setdefault(hit["id"], [hit, 0])[1] += 1
        else:
            violations.append((v, tr))
    lines = []
    for fid, (e, n) in sorted(kf_hits.items()):
        lines.append("KNOWN-FINDING: property=%s %s [%s, %d occurrences in this run]" % (prop, e["what"], fid, n))
    seen = {}
    nviol = 0
    for v, tr in violations:
        key = (v["clause"], v["op"] if not str(v["op"]).startswith("system ") else "")
        nviol += 1
        seen[key] = seen.get(key, 0) + 1
        if seen[key] > 2:      # at most two replay files per (clause, call) pair
            continue
        path = write_replay(prop, ctx, tr, v) if tr else "none"
        lines.append("VIOLATION property=%s replay=%s clause=%s %s=%s%s" % (
            prop, path, v["clause"], "component" if "phase" in v else "op", v["op"],
            (" phase=" + v["phase"]) if v.get("phase") else ""))
    for key, n in sorted(seen.items()):
        if n > 2:
            lines.append("  (%d further violations of %s by %s not listed)" % (n - 2, key[0], key[1]))
    for txt in res.mc_failures:
        nviol += 1
        os.makedirs(os.path.join(OUT, "replays"), exist_ok=True)
        path = os.path.join(OUT, "replays", "%s-mc-%s.txt" % (prop, hashlib.sha1(txt.encode()).hexdigest()[:12]))
        with open(path, "w") as f:
            f.write(txt)
        lines.append("VIOLATION property=%s replay=%s clause=%s.Model" % (prop, path, prop))
    wall = time.time() - ctx.t0
    my_stat = {c: n for c, n in res.stat.items() if c.startswith(prefix)}
    cov = {
        # TLC states/transitions: bounded-model runs plus the trace-validation runs (one state per event)
        "states": max(1, sum(m.get("distinct", 0) for m in res.mc) + int(res.extra.get("trace_validation_states", 0))),
        "transitions": max(1, sum(m.get("generated", 0) for m in res.mc) + int(res.extra.get("trace_validation_states", 0))),
        "traces_validated_against_impl": len(res.traces),
        "events_validated": res.stat.get("events", 0),
        "evaluations": int(sum(my_stat.values())),
        "distinct_nontrivial": int(res.extra.get("distinct_nontrivial", 0)),
        "rule": rule,
        "samples": res.samples[:6] or ["(none)"],
        "clause_evaluations": my_stat,
        "model_runs": [{k: m[k] for k in ("name", "distinct", "generated", "depth", "ok", "wall") if k in m} for m in res.mc],
        "foreign_clause_hits": foreign,
        "notes": {c: sum(1 for v in res.verd if v["clause"] == c) for c in
                  ("note.UnexpectedAccept", "note.OverStrict", "note.Unmodelled")},
        "known_findings_hit": {fid: n for fid, (e, n) in kf_hits.items()},
    }
    # calls on which specification and library disagree about acceptance (never alarms; kept for inspection)
    note_samples = {}
    for v in res.verd:
        if v["clause"] in ("note.UnexpectedAccept", "note.OverStrict") and len(note_samples.setdefault(v["clause"], [])) < 3:
            tr = res.traces.get(v["tid"])
            try:
                ev = tr["events"][v["k"] - 1]
                note_samples[v["clause"]].append({"op": ev.get("op"), "args": ev.get("args"), "exc": ev.get("exc", ""),
                                                  "pre": pre_state(tr, v["k"])})
            except Exception:
                pass
    cov["note_samples"] = note_samples
    pj = sys.modules.get("project")
    if pj is not None and pj.DEGRADED["mux_order_from_save"]:
        cov["projection_degraded"] = dict(pj.DEGRADED)
    ds = sys.modules.get("drv_solve")
    if ds is not None:      # generated parameter sets a constructor refused (dropped and drawn again; never a verdict)
        cov["generator_rejects"] = len(ds.GENERATOR_REJECTS)
    cov.update({k: v for k, v in res.extra.items() if k not in cov})
    ev = {"property_id": prop, "tier": ctx.tier, "seed": ctx.seed, "level": level, "coverage": cov,
          "assumptions": res.assumptions, "wall_s": round(wall, 2), "violations": nviol}
    os.makedirs(os.path.join(OUT, "evidence"), exist_ok=True)
    with open(os.path.join(OUT, "evidence", prop + ".json"), "w") as f:
        json.dump(ev, f, indent=1, default=str)
    for ln in lines:
        print(ln)
    print("%s tier=%s seed=%d: %d clause evaluations on %d events of %d traces, %d violations, %d known-finding hits, %.1fs"
          % (prop, ctx.tier, ctx.seed, cov["evaluations"], cov["events_validated"], len(res.traces), nviol,
             sum(n for _, n in kf_hits.values()), wall))
    return 1 if nviol else 0


# ---------------------------------------------------------------------------------------------
def registry():
    import props_edit

    reg = {}
    reg.update(props_edit.REGISTRY)
    for mod in ("props_solve", "props_misc", "props_struct"):
        try:
            m = __import__(mod)
            reg.update(m.REGISTRY)
        except ImportError:
            pass
    return reg


def main(argv=None):
    ap = argparse.ArgumentParser()
    ap.add_argument("prop")
    ap.add_argument("--tier", default=os.environ.get("VERIF_TIER", "quick"))
    ap.add_argument("--seed", type=int, default=int(os.environ.get("VERIF_SEED", "0") or 0))
    ap.add_argument("--replay", default=None)
    a = ap.parse_args(argv)
    if a.tier not in ("quick", "thorough"):
        a.tier = "quick"
    reg = registry()
    if a.prop not in reg:
        print("unknown property %s" % a.prop)
        return 2
    ctx = Ctx(a.prop, a.tier, a.seed)
    try:
        entry = reg[a.prop]
        if a.replay:
            return entry["replay"](ctx, a.replay)
        return entry["run"](ctx)
    except tlc.TLCError as e:
        print("MACHINERY FAILURE (TLC): %s" % e)
        return 2
    except Exception:
        traceback.print_exc()
        print("MACHINERY FAILURE")
        return 2
    finally:
        ctx.close()


if __name__ == "__main__":
    sys.exit(main())
