"""Hand-built systems for structural situations that random generation reaches only now and then (each was needed to
expose a seeded change at least once).  They are INPUTS, solved by the library and validated by TraceSolve.tla like every
generated system, in every run of the solve-family checks - so that the detection of such changes does not depend on the
seed.  Every builder returns (System, solve keyword arguments)."""
import warnings

import sysloss.components as C
from sysloss.system import System

IG2 = {"vi": [3.0, 6.0, 14.0], "io": [0.0, 0.1, 0.6], "ig": [[1e-5, 2e-5, 4e-5], [3e-5, 5e-5, 9e-5], [8e-5, 1.2e-4, 2e-4]]}
EFF2 = {"vi": [4.0, 9.0, 15.0], "io": [0.01, 0.2, 0.8], "eff": [[0.7, 0.8, 0.85], [0.72, 0.86, 0.9], [0.68, 0.83, 0.88]]}
VD2 = {"vi": [3.0, 12.0], "io": [0.0, 0.5, 1.0], "vdrop": [[0.2, 0.35, 0.5], [0.25, 0.4, 0.6]]}


def dead_branch_added_last():
    """live source -> converter (no quiescent current) -> constant-power load; a second source at 0 V whose only
    consumer is the component added LAST"""
    s = System("sc1", C.Source("live", vo=12.0))
    s.add_source(C.Source("dead", vo=0.0))
    s.add_comp("live", comp=C.Converter("buck", vo=5.0, eff=0.9))
    s.add_comp("buck", comp=C.PLoad("mcu", pwr=0.6))
    s.add_comp("dead", comp=C.RLoss("fuse", rs=0.2))
    return s, {}


def mux_second_input_tables():
    """a mux with a 2-D ground-current table running from its second input (the first one is a 0 V source at another
    nominal position of the table), per-input on-resistances"""
    s = System("sc2", C.Source("off", vo=0.0))
    s.add_source(C.Source("on", vo=13.0, rs=0.05))
    s.add_comp(["off", "on"], comp=C.PMux("mux", rs=[0.3, 0.12], ig=dict(IG2)))
    s.add_comp("mux", comp=C.ILoad("load", ii=0.25))
    s.add_comp("mux", comp=C.PSwitch("sw", rs=0.07, ig=dict(IG2)))
    s.add_comp("sw", comp=C.RLoad("r", rs=60.0))
    return s, {}


def starved_regulator_before_mux():
    """the first mux input is a regulator without head-room (on, supplied, 0 V out); the second input is another source"""
    s = System("sc3", C.Source("solar", vo=0.3, rs=0.5), rail="PV")
    s.add_source(C.Source("batt", vo=3.7, rs=0.1), rail="VBAT")
    s.add_comp("solar", comp=C.LinReg("ldo", vo=3.3, vdrop=0.4, ig=1e-6), rail="LDO")
    s.add_comp(["LDO", "VBAT"], comp=C.PMux("mux", rs=[0.05, 0.08], ig=2e-6), rail="SYS")
    s.add_comp("SYS", comp=C.Converter("buck", vo=1.8, eff=0.9))
    s.add_comp("buck", comp=C.PLoad("mcu", pwr=0.2))
    s.add_comp("mux", comp=C.RLoad("pull", rs=10e3))
    return s, {"energy": True}


def signed_phase_current_behind_series():
    """three phases declared in non-alphabetical order; an ILoad whose phase currents carry a minus sign behind a source
    resistance, a series resistance and a switch; a PLoad with an explicit 0 in its table"""
    s = System("sc4", C.Source("src", vo=9.0, rs=0.4))
    s.add_comp("src", comp=C.RLoss("wire", rs=0.3))
    s.add_comp("wire", comp=C.PSwitch("sw", rs=0.2, iis=1e-6))
    s.add_comp("sw", comp=C.ILoad("i", ii=0.1, iis=1e-4))
    s.add_comp("wire", comp=C.PLoad("p", pwr=0.5, pwrs=0.01))
    s.set_sys_phases({"tx": 2.0, "sleep": 50.0, "rx": 7.0})
    s.set_comp_phases("i", {"tx": -0.2, "rx": -0.05})
    s.set_comp_phases("p", {"tx": 0.8, "sleep": 0.0})
    s.set_comp_phases("sw", ["tx", "rx"])
    return s, {"energy": True}


def negative_rail_tables():
    """every tabulated parameter on a negative rail, tables with negative-written / descending vi axes"""
    s = System("sc5", C.Source("neg", vo=-12.0))
    eff = dict(EFF2, vi=[-15.0, -9.0, -4.0], eff=EFF2["eff"][::-1])
    s.add_comp("neg", comp=C.Converter("cv", vo=-3.3, eff=eff, iq=1e-4))
    s.add_comp("cv", comp=C.ILoad("l1", ii=0.3))
    s.add_comp("neg", comp=C.VLoss("vl", vdrop=dict(VD2)))
    s.add_comp("vl", comp=C.PSwitch("sw", rs=0.1, ig=dict(IG2)))
    s.add_comp("sw", comp=C.PLoad("l2", pwr=2.0))
    s.add_comp("neg", comp=C.Rectifier("br", vdrop=dict(VD2)))
    s.add_comp("br", comp=C.LinReg("ldo", vo=5.0, vdrop=0.3, ig=dict(IG2)))
    s.add_comp("ldo", comp=C.RLoad("l3", rs=100.0))
    return s, {"ta": 40.0}


def mux_changes_source_between_phases():
    """two sources joined by a mux whose first input is active in one phase only: domain, rail-in and subsystem sums move
    with the selection; warnings in one phase only"""
    s = System("sc6", C.Source("usb", vo=5.0, rs=0.2, limits={"io": [0.0, 0.05]}), rail="VUSB")
    s.add_source(C.Source("bat", vo=3.9, rs=0.1), rail="VBAT")
    s.add_comp("usb", comp=C.RLoss("filt", rs=0.5, limits={"pl": [0.0, 1e-4]}), rail="VF")
    s.add_comp(["VF", "VBAT"], comp=C.PMux("mux", rs=[0.1, 0.2]), rail="SYS")
    s.add_comp("SYS", comp=C.LinReg("ldo", vo=3.0, vdrop=0.2, ig=1e-5), rail="V3")
    s.add_comp("V3", comp=C.ILoad("mcu", ii=0.08, loss=True))
    s.add_comp("SYS", comp=C.PLoad("radio", pwr=0.3))
    s.set_sys_phases({"plugged": 10.0, "mobile": 90.0, "idle": 400.0})
    s.set_comp_phases("usb", ["plugged"])
    s.set_comp_phases("radio", {"plugged": 0.3, "mobile": 0.5})
    return s, {"energy": True}


def light_branch_next_to_heavy():
    """a micro-amp branch several levels deep next to an ampere load on the same source: the element-wise stopping rule
    must hold for the small branch too"""
    s = System("sc7", C.Source("src", vo=12.0, rs=0.05))
    s.add_comp("src", comp=C.RLoad("heater", rs=6.0))
    s.add_comp("src", comp=C.RLoss("r1", rs=200.0))
    s.add_comp("r1", comp=C.LinReg("ldo", vo=3.0, vdrop=0.1, ig=2e-6))
    s.add_comp("ldo", comp=C.RLoss("r2", rs=1000.0))
    s.add_comp("r2", comp=C.PLoad("sensor", pwr=3e-6))
    return s, {}


def loss_loads_on_rails():
    """named rails that feed loads booked as losses, a leaf regulator without load, components without any optional argument"""
    s = System("sc8", C.Source("src", vo=24.0), rail="V24")
    s.add_comp("V24", comp=C.Converter("c5", vo=5.0, eff=0.85), rail="V5")
    s.add_comp("V5", comp=C.RLoad("bleed", rs=500.0, loss=True))
    s.add_comp("V5", comp=C.ILoad("led", ii=0.02, loss=True))
    s.add_comp("V24", comp=C.LinReg("leaf", vo=12.0), rail="V12")
    s.add_comp("V24", comp=C.PSwitch("sw"), rail="VSW")
    s.add_comp("VSW", comp=C.PLoad("fan", pwr=1.2))
    return s, {}


def linreg_in_dropout_band():
    """regulators whose input lies strictly between |vo| and |vo| + vdrop (the output follows the input at |Vin| - vdrop),
    one behind a series resistance, one cascaded behind the first, one on a negative rail"""
    s = System("sc9", C.Source("bat", vo=3.6, rs=0.15))
    s.add_comp("bat", comp=C.RLoss("wire", rs=0.1))
    s.add_comp("wire", comp=C.LinReg("ldo33", vo=3.3, vdrop=0.45, ig=2e-5))
    s.add_comp("ldo33", comp=C.LinReg("ldo30", vo=3.0, vdrop=0.25, ig=1e-5))
    s.add_comp("ldo30", comp=C.ILoad("mcu", ii=0.05))
    s.add_comp("ldo33", comp=C.RLoad("pull", rs=330.0))
    s.add_source(C.Source("neg", vo=-5.2))
    s.add_comp("neg", comp=C.LinReg("nldo", vo=-5.0, vdrop=0.6, ig=1e-4))
    s.add_comp("nldo", comp=C.PLoad("bias", pwr=0.1))
    return s, {}


def siblings_before_an_unselected_mux_input():
    """a mux running from its first input whose SECOND input also feeds consumers that were added before the mux"""
    s = System("sc10", C.Source("bat", vo=3.9, rs=0.1))
    s.add_source(C.Source("usb", vo=5.0, rs=0.2))
    s.add_comp("usb", comp=C.ILoad("led", ii=0.02))
    s.add_comp("usb", comp=C.Converter("chg", vo=4.2, eff=0.88))
    s.add_comp("chg", comp=C.PLoad("cell", pwr=1.5))
    s.add_comp(["bat", "usb"], comp=C.PMux("mux", rs=[0.05, 0.08], ig=1e-6))
    s.add_comp("mux", comp=C.ILoad("sys", ii=0.1))
    s.add_comp("usb", comp=C.RLoad("hub", rs=50.0))
    return s, {}


def drops_written_with_a_minus_sign():
    """series drops given with a minus sign - a constant, a 1-D and 2-D tables (whole table / single entries) on a VLoss
    and on diode bridges, on both polarities: the magnitude counts, no passive element may raise the voltage"""
    t2 = {"vi": [3.0, 12.0], "io": [0.0, 0.5, 1.0], "vdrop": [[-0.2, -0.35, -0.5], [-0.25, -0.4, -0.6]]}
    t2m = {"vi": [3.0, 12.0], "io": [0.0, 0.5, 1.0], "vdrop": [[0.2, -0.35, 0.5], [-0.25, 0.4, 0.6]]}
    t1 = {"vi": [5.0], "io": [0.0, 0.5, 1.0], "vdrop": [[-0.3, -0.45, -0.7]]}
    s = System("sc11", C.Source("pos", vo=5.0, rs=0.05))
    s.add_comp("pos", comp=C.VLoss("v2", vdrop=t2))
    s.add_comp("v2", comp=C.ILoad("l1", ii=0.2))
    s.add_comp("pos", comp=C.Rectifier("b2", vdrop=dict(t2m)))
    s.add_comp("b2", comp=C.RLoad("l2", rs=20.0))
    s.add_comp("pos", comp=C.VLoss("v1", vdrop=t1))
    s.add_comp("v1", comp=C.PLoad("l3", pwr=1.0))
    s.add_comp("pos", comp=C.VLoss("vc", vdrop=-0.4))
    s.add_comp("vc", comp=C.ILoad("l4", ii=0.1))
    s.add_source(C.Source("neg", vo=-9.0))
    s.add_comp("neg", comp=C.VLoss("nv2", vdrop=dict(t2m)))
    s.add_comp("nv2", comp=C.ILoad("l5", ii=0.3))
    s.add_comp("neg", comp=C.Rectifier("nb2", vdrop=dict(t2)))
    s.add_comp("nb2", comp=C.ILoad("l6", ii=0.4))
    return s, {}


def mux_input_deep_below_its_source():
    """the selected mux input sits two and three components below its source (fuse, diode, switch); the other input is a
    0 V source declared first; rails on the way"""
    s = System("sc12", C.Source("aux", vo=0.0), rail="VAUX")
    s.add_source(C.Source("main", vo=12.0, rs=0.05), rail="VMAIN")
    s.add_comp("VMAIN", comp=C.RLoss("fuse", rs=0.2), rail="VF")
    s.add_comp("VF", comp=C.VLoss("diode", vdrop=0.4), rail="VD")
    s.add_comp("VD", comp=C.PSwitch("sw", rs=0.05, ig=1e-5), rail="VSW")
    s.add_comp(["VAUX", "VSW"], comp=C.PMux("mux", rs=[0.1, 0.15]), rail="SYS")
    s.add_comp("SYS", comp=C.Converter("buck", vo=3.3, eff=0.9), rail="V33")
    s.add_comp("V33", comp=C.PLoad("mcu", pwr=0.5))
    s.add_comp("SYS", comp=C.ILoad("led", ii=0.02, loss=True))
    s.add_comp("VD", comp=C.RLoad("bleed", rs=1000.0))
    return s, {"energy": True}


ALL = [dead_branch_added_last, mux_second_input_tables, starved_regulator_before_mux, signed_phase_current_behind_series,
       negative_rail_tables, mux_changes_source_between_phases, light_branch_next_to_heavy, loss_loads_on_rails,
       linreg_in_dropout_band, siblings_before_an_unselected_mux_input, drops_written_with_a_minus_sign,
       mux_input_deep_below_its_source]


# ---------------------------------------------------------------------------------------------
# Overloaded systems, one per series element that can lose its polarity: no physical operating point exists, solve() must
# raise its documented errors (C03) - whichever element it is that gives way
def overloads():
    out = []

    def add(name, build):
        try:
            out.append((name, build(), {}))
        except Exception as e:
            out.append((name, e, {}))

    def src_rs():
        s = System("ov1", C.Source("s", vo=5.0, rs=10.0))
        s.add_comp("s", comp=C.ILoad("l", ii=1.0))
        return s

    def src_rs_second_source_behind_converter():
        s = System("ov2", C.Source("a", vo=12.0))
        s.add_comp("a", comp=C.RLoad("ra", rs=100.0))
        s.add_source(C.Source("b", vo=3.0, rs=5.0))
        s.add_comp("b", comp=C.Converter("cv", vo=5.0, eff=0.9))
        s.add_comp("cv", comp=C.PLoad("p", pwr=10.0))
        return s

    def rloss():
        s = System("ov3", C.Source("s", vo=5.0))
        s.add_comp("s", comp=C.RLoss("r", rs=20.0))
        s.add_comp("r", comp=C.ILoad("l", ii=1.0))
        return s

    def vloss():
        s = System("ov4", C.Source("s", vo=-3.0))
        s.add_comp("s", comp=C.VLoss("d", vdrop=4.0))
        s.add_comp("d", comp=C.ILoad("l", ii=0.1))
        return s

    def pswitch():
        s = System("ov5", C.Source("s", vo=5.0))
        s.add_comp("s", comp=C.PSwitch("sw", rs=30.0))
        s.add_comp("sw", comp=C.ILoad("l", ii=0.5))
        return s

    def pmux():
        s = System("ov6", C.Source("a", vo=0.0))
        s.add_source(C.Source("b", vo=5.0))
        s.add_comp(["a", "b"], comp=C.PMux("m", rs=[0.1, 40.0]))
        s.add_comp("m", comp=C.ILoad("l", ii=0.5))
        return s

    def bridge_mosfet():
        s = System("ov7", C.Source("s", vo=-5.0))
        s.add_comp("s", comp=C.Rectifier("b", rs=10.0))
        s.add_comp("b", comp=C.ILoad("l", ii=0.5))
        return s

    def bridge_diode():
        s = System("ov8", C.Source("s", vo=1.0))
        s.add_comp("s", comp=C.Rectifier("b", vdrop=0.7))
        s.add_comp("b", comp=C.ILoad("l", ii=0.1))
        return s

    def src_rs_in_one_phase_only():
        s = System("ov9", C.Source("s", vo=5.0, rs=2.0))
        s.add_comp("s", comp=C.PLoad("p", pwr=0.5))
        s.set_sys_phases({"idle": 10.0, "burst": 1.0})
        s.set_comp_phases("p", {"idle": 0.5, "burst": 50.0})
        return s
    with warnings.catch_warnings():
        warnings.simplefilter("ignore")
        for f in (src_rs, src_rs_second_source_behind_converter, rloss, vloss, pswitch, pmux, bridge_mosfet, bridge_diode,
                  src_rs_in_one_phase_only):
            add(f.__name__, f)
    return out


# ---------------------------------------------------------------------------------------------
# Systems left behind by an edit HISTORY (analysed in between): every report of such a system is judged like that of any
# other system - against its projected state (solve family), against a freshly built twin (C16), against its reloaded
# copy (C12), as a diagram (C19).
def _quiet_solve(s):
    try:
        s.solve()
        s.phases()
    except Exception:
        pass


def h_mux_first_input_relinked():
    """the component feeding the FIRST mux input is removed with its children kept: the mux keeps its priority order with
    the removed component's parent in first place"""
    s = System("h1", C.Source("A", vo=12.0, rs=0.05))
    s.add_source(C.Source("B", vo=9.0, rs=0.1))
    s.add_comp("A", comp=C.Converter("c1", vo=5.0, eff=0.9))
    s.add_comp("B", comp=C.PSwitch("sw1", rs=0.1))
    s.add_comp(["c1", "sw1"], comp=C.PMux("mux", rs=[0.05, 0.2]))
    s.add_comp("mux", comp=C.ILoad("load", ii=0.2))
    _quiet_solve(s)
    s.del_comp("c1", del_childs=False)
    return s, {}


def h_mux_middle_input_relinked():
    """three inputs, the middle one is re-linked; the first is a 0 V source so that the order decides the supply"""
    s = System("h2", C.Source("dead", vo=0.0))
    s.add_source(C.Source("A", vo=12.0, rs=0.05))
    s.add_source(C.Source("B", vo=9.0, rs=0.1))
    s.add_comp("A", comp=C.RLoss("ra", rs=0.2))
    s.add_comp(["dead", "ra", "B"], comp=C.PMux("mux", rs=[0.3, 0.05, 0.2]))
    s.add_comp("mux", comp=C.PLoad("load", pwr=1.0))
    _quiet_solve(s)
    s.del_comp("ra", del_childs=False)
    return s, {}


def h_source_renamed_after_solve():
    """two sources and a mux; after an analysis the source that feeds the active mux input gets another name"""
    s = System("h3", C.Source("usb", vo=5.0, rs=0.2))
    s.add_source(C.Source("bat", vo=3.9, rs=0.1))
    s.add_comp("usb", comp=C.RLoss("filt", rs=0.5))
    s.add_comp(["filt", "bat"], comp=C.PMux("mux", rs=[0.1, 0.2]))
    s.add_comp("mux", comp=C.LinReg("ldo", vo=3.0, vdrop=0.2, ig=1e-5))
    s.add_comp("ldo", comp=C.ILoad("mcu", ii=0.08))
    s.add_comp("bat", comp=C.PLoad("rtc", pwr=0.01))
    _quiet_solve(s)
    s.change_comp("usb", comp=C.Source("wall", vo=5.0, rs=0.2))
    return s, {}


def h_phase_configured_component_replaced_after_solve():
    """a converter that sleeps in one phase and a load with a phase table are replaced (change_comp) after an analysis and
    not configured again: both now behave as without phases"""
    s = System("h4", C.Source("src", vo=12.0, rs=0.1))
    s.add_comp("src", comp=C.Converter("buck", vo=5.0, eff=0.9, iis=1e-5))
    s.add_comp("buck", comp=C.ILoad("mcu", ii=0.1, iis=1e-4))
    s.add_comp("src", comp=C.PLoad("fan", pwr=1.0, pwrs=0.01))
    s.set_sys_phases({"run": 10.0, "sleep": 50.0})
    s.set_comp_phases("buck", ["run"])
    s.set_comp_phases("mcu", {"run": 0.2})
    s.set_comp_phases("fan", {"run": 2.0, "sleep": 0.0})
    _quiet_solve(s)
    s.change_comp("buck", comp=C.Converter("buck", vo=5.0, eff=0.9, iis=1e-5))
    s.change_comp("mcu", comp=C.ILoad("mcu2", ii=0.1, iis=1e-4))
    return s, {"energy": True}


def h_freed_index_reused_below_later_node():
    """an early component is deleted, a new one is added below a later node (it takes the freed index), the old name is
    re-used elsewhere"""
    s = System("h5", C.Source("src", vo=24.0), rail="V24")
    s.add_comp("V24", comp=C.Converter("c12", vo=12.0, eff=0.9), rail="V12")
    s.add_comp("V12", comp=C.PLoad("a", pwr=1.0), group="g1")
    s.add_comp("V24", comp=C.LinReg("l5", vo=5.0, vdrop=0.3), rail="V5")
    s.add_comp("V5", comp=C.ILoad("b", ii=0.1), group="g2")
    _quiet_solve(s)
    s.del_comp("c12", del_childs=True)
    s.add_comp("V5", comp=C.PSwitch("sw", rs=0.1), rail="VSW", group="g1")
    s.add_comp("VSW", comp=C.RLoad("a", rs=100.0), group="g2")
    s.add_comp("V24", comp=C.Converter("c12", vo=3.3, eff=0.8), rail="V12")
    s.add_comp("V12", comp=C.PLoad("c", pwr=0.2))
    return s, {}


def h_rail_moved_to_another_component():
    """a mux input declared by its rail is re-railed, and the freed rail name is given to the OTHER input's feeder"""
    s = System("h6", C.Source("bat", vo=3.9, rs=0.1), rail="VBAT")
    s.add_source(C.Source("usb", vo=5.0, rs=0.2), rail="VUSB")
    s.add_comp("VUSB", comp=C.RLoss("filt", rs=0.5), rail="VF")
    s.add_comp(["VF", "VBAT"], comp=C.PMux("mux", rs=[0.1, 0.2]), rail="SYS")
    s.add_comp("SYS", comp=C.ILoad("mcu", ii=0.08))
    _quiet_solve(s)
    s.change_comp("filt", comp=C.RLoss("filt", rs=0.5), rail="VF2")
    s.change_comp("bat", comp=C.Source("bat", vo=3.9, rs=0.1), rail="VF")
    return s, {}


def h_dead_source_switched_on_after_solve():
    """a 0 V source (first mux input, and feeding a converter of its own) is analysed, then replaced by a live one; a
    second source that was inactive in one phase is made active in all - the tree shape never changes"""
    s = System("h7", C.Source("aux", vo=0.0, rs=0.1))
    s.add_source(C.Source("bat", vo=3.9, rs=0.1))
    s.add_comp("aux", comp=C.Converter("cv", vo=1.8, eff=0.85, iq=1e-5))
    s.add_comp("cv", comp=C.ILoad("core", ii=0.05))
    s.add_comp(["aux", "bat"], comp=C.PMux("mux", rs=[0.1, 0.2], ig=1e-6))
    s.add_comp("mux", comp=C.PLoad("radio", pwr=0.3))
    s.set_sys_phases({"day": 10.0, "night": 20.0})
    s.set_comp_phases("bat", ["day"])
    _quiet_solve(s)
    s.change_comp("aux", comp=C.Source("aux", vo=5.0, rs=0.1))
    s.set_comp_phases("bat", ["day", "night"])
    return s, {}


HISTORIES = [h_dead_source_switched_on_after_solve, h_mux_first_input_relinked, h_mux_middle_input_relinked, h_source_renamed_after_solve,
             h_phase_configured_component_replaced_after_solve, h_freed_index_reused_below_later_node,
             h_rail_moved_to_another_component]


def build_histories():
    out = []
    with warnings.catch_warnings():
        warnings.simplefilter("ignore")
        for f in HISTORIES:
            try:
                s, kw = f()
                out.append((f.__name__, s, kw))
            except Exception as e:
                out.append((f.__name__, e, {}))
    return out


def build_all():
    out = []
    with warnings.catch_warnings():
        warnings.simplefilter("ignore")
        for f in ALL:
            try:
                s, kw = f()
                out.append((f.__name__, s, kw))
            except Exception as e:       # a builder the library refuses: reported as a build failure by the caller
                out.append((f.__name__, e, {}))
    return out
