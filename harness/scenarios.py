"""Hand-built systems for structural situations that random generation reaches only now and then (each was needed to
expose a seeded change at least once).  They are INPUTS, solved by the library and validated by TraceSolve.tla like every
generated system, in every run of the solve-family checks - so that the detection of such changes does not depend on the
seed.  Every builder returns (System, solve keyword arguments)."""
import warnings

import sysloss.components as C
from sysloss.system import System

IG2 = {"vi": [3.0, 6.0, 14.0], "io": [0.0, 0.1, 0.6], "ig": [[1e-5, 2e-5, 4e-5], [3e-5, 5e-5, 9e-5], [8e-5, 1.2e-4, 2e-4]]}
EFF2 = {"vi": [4.0, 9.0, 15.0], "io": [0.01, 0.2, 0.8], "eff": [[0.7, 0.8, 0.85], [0.72, 0.86, 0.9], [0.68, 0.83, 0.88]]}
VD2 = {"vi": [3.0, 12.0], "io": [0.0, 0.5, 1.0], "vdrop": [[0.2, 0.35, 0.5], [0.25, 0.4, 0.6]]}


def dead_branch_added_last():
    """live source -> converter (no quiescent current) -> constant-power load; a second source at 0 V whose only
    consumer is the component added LAST"""
    s = System("sc1", C.Source("live", vo=12.0))
    s.add_source(C.Source("dead", vo=0.0))
    s.add_comp("live", comp=C.Converter("buck", vo=5.0, eff=0.9))
    s.add_comp("buck", comp=C.PLoad("mcu", pwr=0.6))
    s.add_comp("dead", comp=C.RLoss("fuse", rs=0.2))
    return s, {}


def mux_second_input_tables():
    """a mux with a 2-D ground-current table running from its second input (the first one is a 0 V source at another
    nominal position of the table), per-input on-resistances"""
    s = System("sc2", C.Source("off", vo=0.0))
    s.add_source(C.Source("on", vo=13.0, rs=0.05))
    s.add_comp(["off", "on"], comp=C.PMux("mux", rs=[0.3, 0.12], ig=dict(IG2)))
    s.add_comp("mux", comp=C.ILoad("load", ii=0.25))
    s.add_comp("mux", comp=C.PSwitch("sw", rs=0.07, ig=dict(IG2)))
    s.add_comp("sw", comp=C.RLoad("r", rs=60.0))
    return s, {}


def starved_regulator_before_mux():
    """the first mux input is a regulator without head-room (on, supplied, 0 V out); the second input is another source"""
    s = System("sc3", C.Source("solar", vo=0.3, rs=0.5), rail="PV")
    s.add_source(C.Source("batt", vo=3.7, rs=0.1), rail="VBAT")
    s.add_comp("solar", comp=C.LinReg("ldo", vo=3.3, vdrop=0.4, ig=1e-6), rail="LDO")
    s.add_comp(["LDO", "VBAT"], comp=C.PMux("mux", rs=[0.05, 0.08], ig=2e-6), rail="SYS")
    s.add_comp("SYS", comp=C.Converter("buck", vo=1.8, eff=0.9))
    s.add_comp("buck", comp=C.PLoad("mcu", pwr=0.2))
    s.add_comp("mux", comp=C.RLoad("pull", rs=10e3))
    return s, {"energy": True}


def signed_phase_current_behind_series():
    """three phases declared in non-alphabetical order; an ILoad whose phase currents carry a minus sign behind a source
    resistance, a series resistance and a switch; a PLoad with an explicit 0 in its table"""
    s = System("sc4", C.Source("src", vo=9.0, rs=0.4))
    s.add_comp("src", comp=C.RLoss("wire", rs=0.3))
    s.add_comp("wire", comp=C.PSwitch("sw", rs=0.2, iis=1e-6))
    s.add_comp("sw", comp=C.ILoad("i", ii=0.1, iis=1e-4))
    s.add_comp("wire", comp=C.PLoad("p", pwr=0.5, pwrs=0.01))
    s.set_sys_phases({"tx": 2.0, "sleep": 50.0, "rx": 7.0})
    s.set_comp_phases("i", {"tx": -0.2, "rx": -0.05})
    s.set_comp_phases("p", {"tx": 0.8, "sleep": 0.0})
    s.set_comp_phases("sw", ["tx", "rx"])
    return s, {"energy": True}


def negative_rail_tables():
    """every tabulated parameter on a negative rail, tables with negative-written / descending vi axes"""
    s = System("sc5", C.Source("neg", vo=-12.0))
    eff = dict(EFF2, vi=[-15.0, -9.0, -4.0], eff=EFF2["eff"][::-1])
    s.add_comp("neg", comp=C.Converter("cv", vo=-3.3, eff=eff, iq=1e-4))
    s.add_comp("cv", comp=C.ILoad("l1", ii=0.3))
    s.add_comp("neg", comp=C.VLoss("vl", vdrop=dict(VD2)))
    s.add_comp("vl", comp=C.PSwitch("sw", rs=0.1, ig=dict(IG2)))
    s.add_comp("sw", comp=C.PLoad("l2", pwr=2.0))
    s.add_comp("neg", comp=C.Rectifier("br", vdrop=dict(VD2)))
    s.add_comp("br", comp=C.LinReg("ldo", vo=5.0, vdrop=0.3, ig=dict(IG2)))
    s.add_comp("ldo", comp=C.RLoad("l3", rs=100.0))
    return s, {"ta": 40.0}


def mux_changes_source_between_phases():
    """two sources joined by a mux whose first input is active in one phase only: domain, rail-in and subsystem sums move
    with the selection; warnings in one phase only"""
    s = System("sc6", C.Source("usb", vo=5.0, rs=0.2, limits={"io": [0.0, 0.05]}), rail="VUSB")
    s.add_source(C.Source("bat", vo=3.9, rs=0.1), rail="VBAT")
    s.add_comp("usb", comp=C.RLoss("filt", rs=0.5, limits={"pl": [0.0, 1e-4]}), rail="VF")
    s.add_comp(["VF", "VBAT"], comp=C.PMux("mux", rs=[0.1, 0.2]), rail="SYS")
    s.add_comp("SYS", comp=C.LinReg("ldo", vo=3.0, vdrop=0.2, ig=1e-5), rail="V3")
    s.add_comp("V3", comp=C.ILoad("mcu", ii=0.08, loss=True))
    s.add_comp("SYS", comp=C.PLoad("radio", pwr=0.3))
    s.set_sys_phases({"plugged": 10.0, "mobile": 90.0, "idle": 400.0})
    s.set_comp_phases("usb", ["plugged"])
    s.set_comp_phases("radio", {"plugged": 0.3, "mobile": 0.5})
    return s, {"energy": True}


def light_branch_next_to_heavy():
    """a micro-amp branch several levels deep next to an ampere load on the same source: the element-wise stopping rule
    must hold for the small branch too"""
    s = System("sc7", C.Source("src", vo=12.0, rs=0.05))
    s.add_comp("src", comp=C.RLoad("heater", rs=6.0))
    s.add_comp("src", comp=C.RLoss("r1", rs=200.0))
    s.add_comp("r1", comp=C.LinReg("ldo", vo=3.0, vdrop=0.1, ig=2e-6))
    s.add_comp("ldo", comp=C.RLoss("r2", rs=1000.0))
    s.add_comp("r2", comp=C.PLoad("sensor", pwr=3e-6))
    return s, {}


def loss_loads_on_rails():
    """named rails that feed loads booked as losses, a leaf regulator without load, components without any optional argument"""
    s = System("sc8", C.Source("src", vo=24.0), rail="V24")
    s.add_comp("V24", comp=C.Converter("c5", vo=5.0, eff=0.85), rail="V5")
    s.add_comp("V5", comp=C.RLoad("bleed", rs=500.0, loss=True))
    s.add_comp("V5", comp=C.ILoad("led", ii=0.02, loss=True))
    s.add_comp("V24", comp=C.LinReg("leaf", vo=12.0), rail="V12")
    s.add_comp("V24", comp=C.PSwitch("sw"), rail="VSW")
    s.add_comp("VSW", comp=C.PLoad("fan", pwr=1.2))
    return s, {}


ALL = [dead_branch_added_last, mux_second_input_tables, starved_regulator_before_mux, signed_phase_current_behind_series,
       negative_rail_tables, mux_changes_source_between_phases, light_branch_next_to_heavy, loss_loads_on_rails]


def build_all():
    out = []
    with warnings.catch_warnings():
        warnings.simplefilter("ignore")
        for f in ALL:
            try:
                s, kw = f()
                out.append((f.__name__, s, kw))
            except Exception as e:       # a builder the library refuses: reported as a build failure by the caller
                out.append((f.__name__, e, {}))
    return out
