"""Parser for the TLA+ values TLC prints (action arguments in `-dump dot,actionlabels`
edge labels and `-simulate file=` comments, and whole states).

strings -> str, numbers -> int, TRUE/FALSE -> bool, <<..>> -> list, {..} -> frozenset-like
sorted list wrapped in TlaSet, [a |-> v, ..] -> dict, (k :> v @@ ..) -> dict.
"""


class TlaSet(list):
    pass


class _P:
    def __init__(self, s):
        self.s = s
        self.i = 0

    def ws(self):
        while self.i < len(self.s) and self.s[self.i] in " \t\r\n":
            self.i += 1

    def peek(self, t):
        self.ws()
        return self.s.startswith(t, self.i)

    def eat(self, t):
        self.ws()
        if not self.s.startswith(t, self.i):
            raise ValueError("expected %r at %d in %r" % (t, self.i, self.s[max(0, self.i - 20): self.i + 20]))
        self.i += len(t)

    def value(self):
        self.ws()
        c = self.s[self.i]
        if c == '"':
            j = self.i + 1
            out = []
            while self.s[j] != '"':
                if self.s[j] == "\\":
                    j += 1
                out.append(self.s[j])
                j += 1
            self.i = j + 1
            return "".join(out)
        if self.s.startswith("<<", self.i):
            self.i += 2
            out = []
            if self.peek(">>"):
                self.eat(">>")
                return out
            while True:
                out.append(self.value())
                if self.peek(","):
                    self.eat(",")
                else:
                    self.eat(">>")
                    return out
        if c == "{":
            self.i += 1
            out = TlaSet()
            if self.peek("}"):
                self.eat("}")
                return out
            while True:
                out.append(self.value())
                if self.peek(","):
                    self.eat(",")
                else:
                    self.eat("}")
                    return out
        if c == "[":
            self.i += 1
            out = {}
            while True:
                self.ws()
                j = self.i
                while self.s[j].isalnum() or self.s[j] == "_":
                    j += 1
                k = self.s[self.i:j]
                self.i = j
                self.eat("|->")
                out[k] = self.value()
                if self.peek(","):
                    self.eat(",")
                else:
                    self.eat("]")
                    return out
        if c == "(":
            self.i += 1
            out = {}
            while True:
                k = self.value()
                self.eat(":>")
                out[k] = self.value()
                if self.peek("@@"):
                    self.eat("@@")
                else:
                    self.eat(")")
                    return out
        if self.s.startswith("TRUE", self.i):
            self.i += 4
            return True
        if self.s.startswith("FALSE", self.i):
            self.i += 5
            return False
        j = self.i
        if self.s[j] == "-":
            j += 1
        while j < len(self.s) and self.s[j].isdigit():
            j += 1
        if j == self.i:
            raise ValueError("cannot parse value at %d: %r" % (self.i, self.s[self.i: self.i + 30]))
        v = int(self.s[self.i:j])
        self.i = j
        return v


def parse_value(s):
    p = _P(s)
    v = p.value()
    p.ws()
    if p.i != len(p.s):
        raise ValueError("trailing text in %r" % s)
    return v


def parse_action(label):
    """'AddComp(<<"a">>,FALSE,"b")' -> ('AddComp', [[ 'a' ], False, 'b'])"""
    label = label.strip()
    k = label.find("(")
    if k < 0:
        return label, []
    name = label[:k]
    p = _P(label)
    p.i = k + 1
    args = []
    if p.peek(")"):
        return name, args
    while True:
        args.append(p.value())
        if p.peek(","):
            p.eat(",")
        else:
            p.eat(")")
            return name, args


def parse_state(text):
    """'/\\ x = 1\n/\\ y = <<>>' -> {'x': 1, 'y': []}"""
    out = {}
    p = _P(text)
    while True:
        p.ws()
        if p.i >= len(p.s):
            return out
        if p.peek("/\\"):       # a specification with a single variable prints no conjunction bullet
            p.eat("/\\")
        p.ws()
        j = p.i
        while p.s[j].isalnum() or p.s[j] == "_":
            j += 1
        k = p.s[p.i:j]
        p.i = j
        p.eat("=")
        out[k] = p.value()
