"""Replay of TLC-generated edit behaviours (MCEdit state graph, SimEdit simulations) into the
real library.  The recorder turns every call into a trace event; TraceEdit.tla judges them."""
import random

from model import build, canon_desc
from project import node_of

DUR = {"p": 1.0, "q": 2.5, "s": 0.5, "N/A": 1.0}


def _comp(c):
    return build(canon_desc(c["cls"], c["name"], c["pay"]))


def _phase_conf(s, ref, conf):
    if conf["t"] == "bad":
        return ("p",)
    phs = list(conf["v"])
    try:
        idx = node_of(s, ref)
        cls = type(s._g[idx]).__name__ if idx != -1 else ""
    except Exception:
        cls = ""
    if cls in ("PLoad", "ILoad", "RLoad"):
        base = {"PLoad": 0.1, "ILoad": 0.01, "RLoad": 100.0}[cls]
        return {p: base * (i + 1) for i, p in enumerate(phs)}
    return phs


def do_call(s, op, a):
    """perform one abstract call on the live System; exceptions are the recorder's business"""
    try:
        if op == "add_source":
            s.add_source(_comp(a["comp"]), rail=a["rail"], group=a["group"])
        elif op == "add_comp":
            parent = list(a["refs"]) if a["aslist"] else a["refs"][0]
            s.add_comp(parent, comp=_comp(a["comp"]), rail=a["rail"], group=a["group"])
        elif op == "change_comp":
            s.change_comp(a["target"], comp=_comp(a["comp"]), rail=a["rail"], group=a["group"])
        elif op == "del_comp":
            s.del_comp(a["target"], del_childs=a["delchilds"])
        elif op == "set_sys_phases":
            s.set_sys_phases({p["name"]: DUR.get(p["name"], 1.0) for p in a["phases"]})
        elif op == "set_comp_phases":
            s.set_comp_phases(a["ref"], _phase_conf(s, a["ref"], a["conf"]))
        else:
            raise KeyError(op)
    except Exception:
        pass


def label_to_call(name, args):
    """positional arguments of an MCEdit action label -> (op, abstract argument record)"""
    if name == "Do":
        return args[0], args[1]
    if name == "AddSource":
        n, cls, pay, rail, group = args
        return "add_source", {"comp": {"name": n, "cls": cls, "pay": pay}, "rail": rail, "group": group}
    if name == "AddComp":
        refs, aslist, n, cls, pay, rail, group = args
        return "add_comp", {"refs": refs, "aslist": aslist, "comp": {"name": n, "cls": cls, "pay": pay},
                            "rail": rail, "group": group}
    if name == "ChangeComp":
        t, n, cls, pay, rail, group = args
        return "change_comp", {"target": t, "comp": {"name": n, "cls": cls, "pay": pay}, "rail": rail, "group": group}
    if name == "DelComp":
        return "del_comp", {"target": args[0], "delchilds": args[1]}
    if name == "SetSysPhases":
        return "set_sys_phases", {"phases": args[0]}
    if name == "SetCompPhases":
        return "set_comp_phases", {"ref": args[0], "conf": args[1]}
    raise KeyError(name)


def new_system(init_name="a", pay=0):
    from sysloss.system import System

    return System("sys", _comp({"cls": "Source", "name": init_name, "pay": pay}))


def replay_sim(rec, behaviours, analyses=None, mid=None, rng=None):
    """every simulated behaviour becomes one recorded trace; mid(s) (optional) is called between edits at random
    points - analyses in the middle of a history must not influence what later reports show"""
    n = 0
    for states in behaviours:
        s = new_system()
        for st in states:
            do_call(s, st["act"]["op"], st["act"]["a"])
            n += 1
            if mid and rng.random() < 0.3:
                mid(s)
        if analyses:
            analyses(s)
        n += alias_mux_call(s)      # (after the analyses: the reports of the history-built system are those of a system inside the model)
    return n


def alias_mux_call(s):
    """a last call outside the model: a PMux over a parent list that names one component twice, by its name and by its
    rail.  Whether the library accepts it is not judged; if it RAISES, the system must be untouched like after any
    other rejected call (C15)"""
    try:
        g = s._g
        if any(type(g[i]).__name__ == "PMux" for i in g.node_indices()):
            return 0
        railed = [(n, r) for n, r in g.attrs["rails"].items() if r and type(g[g.attrs["nodes"][n]]).__name__ not in ("PLoad", "ILoad", "RLoad")]
        if not railed:
            return 0
        n, r = railed[0]
        others = [m for m in g.attrs["nodes"] if m != n and type(g[g.attrs["nodes"][m]]).__name__ not in ("PLoad", "ILoad", "RLoad")]
        refs = ([others[0]] if others else []) + [n, r]
        name = next(x for x in ("mx1", "mx2", "mx3") if x not in g.attrs["nodes"] and x not in g.attrs["rails"].values())
    except Exception:
        return 0
    try:
        s.add_comp(refs, comp=_comp({"cls": "PMux", "name": name, "pay": 0}))
    except Exception:
        pass
    return 1


# ----------------------------------------------------------------------------------------------
# exhaustive transition replay from the labelled state graph of MCEdit


def _split_label(label):
    """node label -> (sys text, outcome)"""
    lines = label.split("\n")
    out, rest = "ok", []
    for ln in lines:
        if ln.startswith("/\\ outcome = "):
            out = ln.split("=", 1)[1].strip().strip('"')
        else:
            rest.append(ln)
    return "\n".join(rest), out


def replay_graph(rec, inits, edges, nodes, rng, max_states=None, rej_per_state=None, at_state=None, acc_only_paths=False):
    """for every (sampled) abstract state: build it along a shortest accepted path (recorded),
    mark it, and apply every accepted and (a sample of) the rejected outgoing transitions to
    deep copies of it.  Returns statistics."""
    import tlaval

    sysof, outof = {}, {}
    for nid, lab in nodes.items():
        sysof[nid], outof[nid] = _split_label(lab)
    # shortest accepted paths, one per distinct system state
    start = inits[0]
    path = {sysof[start]: []}
    rep = {sysof[start]: start}
    queue = [start]
    while queue:
        nxt = []
        for nid in queue:
            for lab, dst in edges.get(nid, []):
                if outof[dst] == "ok" and sysof[dst] not in path:
                    path[sysof[dst]] = path[sysof[nid]] + [lab]
                    rep[sysof[dst]] = dst
                    nxt.append(dst)
        queue = nxt
    states = sorted(path, key=lambda k: (len(path[k]), k))
    total_states = len(states)
    if max_states is not None and len(states) > max_states:
        states = [states[0]] + rng.sample(states[1:], max_states - 1)
    n_acc = n_rej = 0
    for st in states:
        s = new_system()
        for lab in path[st]:
            do_call(s, *label_to_call(*tlaval.parse_action(lab)))
        if at_state:
            at_state(s)
        if acc_only_paths:
            continue
        rec.mark(s)
        out = edges.get(rep[st], [])
        acc = [(l, d) for l, d in out if outof[d] == "ok"]
        rej = [(l, d) for l, d in out if outof[d] != "ok"]
        if rej_per_state is not None and len(rej) > rej_per_state:
            rej = rng.sample(rej, rej_per_state)
        for lab, _ in acc + rej:
            c = rec.branch(s)
            do_call(c, *label_to_call(*tlaval.parse_action(lab)))
        n_acc += len(acc)
        n_rej += len(rej)
    return {"graph_states": total_states, "states_replayed": len(states), "accepted_transitions": n_acc,
            "rejected_transitions": n_rej}
