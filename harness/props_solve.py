"""C01 C02 C04 C05 C06 C07 C08 C09: relations between an abstract system state and the tables
solve() / rail_rep() return, judged by TLC (spec/TraceSolve.tla) on numeric instantiations of
TLC-generated structures."""
import json
import hashlib

import tlc
import gen
import drv_solve
from check import Result, conclude
from rebuild import rebuild


def build_behaviours(ctx, n, depths=(4, 7, 10, 13)):
    behs = []
    per = max(1, n // len(depths))
    for d in depths:
        b, _ = tlc.run_sim("SimEdit.tla", "SimBuild.cfg", ctx.work, num=per, depth=d, seed=ctx.seed * 1000 + d)
        behs += b
    return behs


def validate_cases(ctx, res, cases):
    traces = [{"tid": c["id"], "kind": "solve", "events": [c]} for c in cases]
    res.add_traces(traces)
    batches = [[t["events"][0] for t in b] for b in tlc.split(traces, tlc.NCPU)]
    verd, stat, states = tlc.validate("TraceSolve.tla", "TraceSolve.cfg", batches, ctx.work)
    res.verd += verd
    for k, v in stat.items():
        res.stat[k] = res.stat.get(k, 0) + v
    res.extra["trace_validation_states"] = res.extra.get("trace_validation_states", 0) + states


def struct_digest(st):
    """digest of the structure of a system (classes and links, not numbers)"""
    return hashlib.sha1(json.dumps(sorted((c["cls"], tuple(c["par"]), c["rail"] != "", c["pconf"]["t"]) for c in st["comps"]),
                                   default=str).encode()).hexdigest()[:12]


def solve_campaign(ctx, n_systems, gen_kw=None, case_kw=None, filt=None, variants=1, post=None, matrix=0, skel=0, skel_want=None, skel_big=False, edit_p=0.35):
    """generate systems, solve, validate.  filt(state_dict) selects structures of interest;
    post(system, case list, rng, next id) may append further cases for the same system"""
    res = Result()
    rng = ctx.rng
    EDIT_COUNT.clear()
    behs = build_behaviours(ctx, int(n_systems * (3 if filt else 1.1)) + 8)
    cases, structs = [], set()
    n = 0
    for st in behs:
        if n >= n_systems:
            break
        if filt and not filt(st[-1]["sys"]):
            continue
        for _ in range(variants):
            g = gen.Gen(rng, **(gen_kw or {}))
            first = "a"
            if rng.random() < 0.15:
                st = drv_solve.rename_behaviour(st)
                first = drv_solve.TRICKY["a"]
            try:
                s = drv_solve.build_system(st, g, rng, first=first)
            except drv_solve.BuildFailure as bf:
                cases.append(bf.case(len(cases)))
                continue
            kw = dict(case_kw(rng, s) if case_kw else {})
            rr = kw.pop("rail_rep", False)
            c = drv_solve.solve_case(s, len(cases), rail_rep=rr, **kw)
            c["want"], c["haswant"] = drv_solve.want_of(st[-1]["sys"]), True
            c["wantlim"] = drv_solve.wantlim_of(g)
            cases.append(c)
            structs.add(struct_digest(c["st"]))
            if post:
                post(s, cases, rng)
            if rng.random() < edit_p:
                edit_and_resolve(s, cases, rng, rr, kw)
            if has_mux(st[-1]["sys"]) and rng.random() < 0.3:
                shared_list_twin(st, gen_kw, rng, cases, rr, kw)
        n += 1
    if matrix:
        import matrix as _mx
        mstates, mcnt = _mx.matrix_states(ctx)
        res.mc.append(mcnt)
        picked = mstates if len(mstates) <= matrix else rng.sample(mstates, matrix)
        for st in picked:
            try:
                s = _mx.build(st, rng)
            except Exception:
                continue
            kw = dict(case_kw(rng, s) if case_kw else {})
            rr = kw.pop("rail_rep", False)
            c = drv_solve.solve_case(s, len(cases), rail_rep=rr, **kw)
            c["matrix"] = {k: st[k] for k in ("kind", "form", "sign", "pos", "ph", "mode")}
            cases.append(c)
            structs.add(struct_digest(c["st"]))
            if post:
                post(s, cases, rng)
        res.extra["matrix_states"] = len(picked)
    if skel:
        # states of the exhaustively checked skeleton model MCSkel (every small tree x liveness pattern x phase lists)
        import skel as _sk
        sstates, scnt = _sk.skel_states(ctx, big=skel_big)
        res.mc.append(scnt)
        if not scnt["ok"]:
            if "is violated" in scnt["out"]:
                res.mc_failures.append("MCSkel: " + scnt["out"][scnt["out"].find("Error:"):][:3000])
            else:
                raise tlc.TLCError(scnt["out"][-2000:])
        wants = skel_want if isinstance(skel_want, (list, tuple)) else [skel_want]
        picked = []
        for w in wants:           # several predicates: an equal share of the instantiated states for each
            picked += _sk.pick(sstates, rng, max(1, skel // len(wants)), w)
        for st in picked:
            g = gen.Gen(rng, **dict(gen_kw or {}, zero_src=0.0))
            try:
                s = _sk.build_skel(st, g, rng)
            except Exception as e:
                cases.append(drv_solve.BuildFailure(None, "skeleton", {}, e).case(len(cases)))
                continue
            kw = dict(case_kw(rng, s) if case_kw else {})
            rr = kw.pop("rail_rep", False)
            c = drv_solve.solve_case(s, len(cases), rail_rep=rr, **kw)
            c["skeleton"] = True
            cases.append(c)
            structs.add(struct_digest(c["st"]))
            if post:
                post(s, cases, rng)
        res.extra["skeleton_states"] = {"model": scnt.get("distinct"), "instantiated": len(picked)}
    validate_cases(ctx, res, cases)
    res.extra["systems"] = n
    res.extra["edits_between_solves"] = dict(EDIT_COUNT)
    res.extra["distinct_structures"] = len(structs)
    res.extra["solve_outcomes"] = {}
    for c in cases:
        k = c["outcome"] + (":" + c["exc"] if c["exc"] else "")
        res.extra["solve_outcomes"][k] = res.extra["solve_outcomes"].get(k, 0) + 1
    res.extra["distinct_nontrivial"] = len(structs)
    res.samples = [{"components": [(c["name"], c["cls"], c["par"]) for c in cs["st"]["comps"]],
                    "phases": [p["name"] for p in cs["st"]["sysph"]], "outcome": cs["outcome"]} for cs in cases[:3]]
    return res, cases


def mc_laws(ctx, res):
    """row theorems of the documented laws (spec/MCLaws.tla): functional form accepted / perturbed form rejected by the
    relations the validator uses, energy row, loss bounds, efficiency range, passive no gain, mirror"""
    m = tlc.run_mc("MCLaws.tla", "MCLaws.cfg", ctx.work, workers=4)
    m["name"] = "row theorems of the component laws on a parameter / operating-point lattice (11 kinds, both polarities)"
    res.mc.append(m)
    if not m["ok"]:
        import re
        if re.search(r"Invariant \w+ is violated", m["out"]):
            res.mc_failures.append("MCLaws: " + m["out"][m["out"].find("Error:"):][:3000])
        else:
            raise tlc.TLCError(m["out"][-2000:])
    # the same row theorems over ALL integers (TLAPS, spec/proofs/RowProofs.tla): EnergyRow, LossBounds, PassiveNoGain per
    # kind follow from the documented transfer and loss laws.  A property of the specification alone - recorded.
    res.extra["tlaps_row_theorems"] = tlc.run_tlaps("RowProofs.tla", ctx.work)


EDIT_COUNT = {}        # kind of edit -> how often it was applied in this run (stratified choice, reported in the evidence)


def apply_some_edit(s, rng, kw=None):
    """one edit of an already analysed system, of the applicable kind used least so far in this run: move a leaf to another
    parent (del_comp + add_comp, re-using the freed node index), replace an interior component by an equal one
    (change_comp), replace a phase-configured component without configuring it again, rename a source / inner component,
    re-declare / clear the system phases, re-rail or delete a mux input.  Returns None when no edit applies, else
    dict(what, edit, kw, exc): exc is the exception of an edit the library refused"""
    kw = dict(kw or {})
    from model import build
    from project import project
    from rebuild import desc_of
    st = project(s)
    comps = {c["name"]: c for c in st["comps"]}
    kids = {}
    for c in st["comps"]:
        for p in c["par"]:
            kids.setdefault(p, []).append(c["name"])
    leaves = [n for n, c in comps.items() if c["par"] and n not in kids and c["cls"] != "PMux"]
    hosts = [n for n, c in comps.items() if c["cls"] not in ("PLoad", "ILoad", "RLoad")]
    muxin = [(m, x) for m, c in comps.items() if c["cls"] == "PMux" and len(c["par"]) > 1
             for x in c["par"] if comps[x]["par"]]
    # mux inputs that were declared through a rail name (the raw references the library keeps)
    railrefs = []
    try:
        for m, c in comps.items():
            if c["cls"] == "PMux":
                for ref in s._g.attrs["pnames"][s._g.attrs["nodes"][m]]:
                    if ref not in comps:
                        railrefs += [n for n, cc in comps.items() if cc["rail"] == ref]
    except Exception:
        railrefs = []
    edit = None
    inner = [n for n, c in comps.items() if n in kids]
    movable = [n for n in leaves if [h for h in hosts if h != n and h not in comps[n]["par"]]]
    kinds = (["phases_dur", "phases_names", "phases_clear"] if st["sysph"] else []) + (["rerail"] if railrefs else []) + \
            (["del_muxin"] if muxin else []) + (["move_leaf"] if movable else []) + (["replace_inner"] if inner else [])
    # components that carry a phase configuration: replacing one drops its configuration (change_comp documents that)
    confd = [n for n, c in comps.items() if c["pconf"]["t"] != "none" and c["pconf"]["v"]] if st["sysph"] else []
    kinds += ["replace_conf_reset"] if confd else []
    kinds += ["rename"]         # (a source or an inner component gets another name after the system has been analysed)
    # a source that was dead in the analysis (0 V, or not listed in some phase) is switched on by an edit that leaves the
    # tree shape alone: a replacement with a non-zero voltage, or another list of active phases
    zsrc = [n for n, c in comps.items() if not c["par"] and c["pay"]["params"].get("vo", {}).get("v") in ([0, 0], [1, 0])]
    psrc = [n for n, c in comps.items() if not c["par"] and c["pconf"]["t"] == "list" and c["pconf"]["v"]] if st["sysph"] else []
    kinds += (["source_on"] if zsrc else []) + (["source_phases"] if psrc else [])
    if not kinds:
        return None
    # stratified: the applicable kind that has been used least so far in this run (ties broken at random)
    low = min(EDIT_COUNT.get(k, 0) for k in kinds)
    kind = rng.choice([k for k in kinds if EDIT_COUNT.get(k, 0) == low])
    EDIT_COUNT[kind] = EDIT_COUNT.get(kind, 0) + 1
    try:
        if kind.startswith("phases"):
            # the system phases are re-declared with other durations (24 h energies, averages and shares follow), with other
            # names, or cleared altogether: the components keep their phase configuration
            from decwire import cell as _c
            if kind == "phases_dur":
                newph = {p["name"]: float("%.3g" % (rng.uniform(0.2, 5.0) * (i + 1))) for i, p in enumerate(st["sysph"])}
                kw = dict(kw, energy=True)
                what = "system phases re-declared with other durations"
            elif kind == "phases_names":
                keep = st["sysph"][0]["name"]
                newph = {"z1": 2.0, keep: 1.5, "z2": 0.25}
                kw = {k: v for k, v in kw.items() if k != "phase"}
                what = "system phases re-declared with other names"
            else:
                newph = {}
                kw = {k: v for k, v in kw.items() if k != "phase"}
                what = "system phases cleared"
            edit = {"op": "set_sys_phases", "args": {"phases": [{"name": k, "dur": _c(v)} for k, v in newph.items()]}, "pre": st}
            s.set_sys_phases(newph)
        elif kind == "rerail":
            # a mux input that was declared through its rail gets another rail (or none): the mux keeps that input
            x = rng.choice(railrefs)
            free = [r for r in ("rx1", "rx2", "") if r != comps[x]["rail"]]
            s.change_comp(x, comp=build(desc_of(comps[x])), group=comps[x]["group"], rail=rng.choice(free))
            pc = comps[x]["pconf"]
            if pc["t"] != "none":
                from rebuild import conf_of
                s.set_comp_phases(x, conf_of(pc))
            what = "mux input %s (declared by rail) re-railed" % x
        elif kind == "del_muxin":
            # remove an intermediate component that is a mux input: the mux must keep its input order, with the removed
            # component's parent in its place (SysTree!DelCompEff)
            m, x = rng.choice(muxin)
            edit = {"op": "del_comp", "args": {"target": x, "delchilds": False}, "pre": st}
            s.del_comp(x, del_childs=False)
            what = "removed mux input %s (children kept)" % x
        elif kind == "move_leaf":
            n = rng.choice(movable)
            h = rng.choice([h for h in hosts if h != n and h not in comps[n]["par"]])
            s.del_comp(n)
            s.add_comp(h, comp=build(desc_of(comps[n])), group=comps[n]["group"], rail=comps[n]["rail"])
            what = "moved %s below %s" % (n, h)
        elif kind == "source_on":
            n = rng.choice(zsrc)
            d = desc_of(comps[n])
            d["params"]["vo"] = float("%.3g" % rng.uniform(3.0, 24.0))
            s.change_comp(n, comp=build(d), group=comps[n]["group"], rail=comps[n]["rail"])
            what = "0 V source %s replaced by a live one" % n
        elif kind == "source_phases":
            n = rng.choice(psrc)
            allph = [p["name"] for p in st["sysph"]]
            rest = [p for p in allph if p not in comps[n]["pconf"]["v"]]
            s.set_comp_phases(n, rest if (rest and rng.random() < 0.7) else allph)
            what = "source %s made active in other phases" % n
        elif kind == "rename":
            srcs = [n for n, c in comps.items() if not c["par"]]
            n = rng.choice(srcs if (rng.random() < 0.6 or not inner) else inner)
            d = desc_of(comps[n])
            d["name"] = "rn_" + n
            # (a rename may not keep the component's own rail name: it gets a new one when it had one)
            s.change_comp(n, comp=build(d), group=comps[n]["group"], rail=("rr_" + comps[n]["rail"]) if comps[n]["rail"] else "")
            what = "renamed %s" % n
        elif kind == "replace_conf_reset":
            # a component with a phase configuration is replaced by an equal one and NOT configured again: it now has no
            # phase configuration and must behave as in a system without phases (the table is held to the projected state)
            n = rng.choice(confd)
            s.change_comp(n, comp=build(desc_of(comps[n])), group=comps[n]["group"], rail=comps[n]["rail"])
            what = "replaced %s (phase-configured) by an equal component without configuring it again" % n
        else:
            n = rng.choice(inner)
            s.change_comp(n, comp=build(desc_of(comps[n])), group=comps[n]["group"], rail=comps[n]["rail"])
            pc = comps[n]["pconf"]
            if pc["t"] != "none":      # change_comp resets the phase configuration of the replaced component
                from rebuild import conf_of
                s.set_comp_phases(n, conf_of(pc))
            what = "replaced %s by an equal component" % n
    except Exception as e:
        return {"what": kind, "edit": edit, "kw": kw, "exc": e}
    return {"what": what, "edit": edit, "kw": kw, "exc": None}


def edit_and_resolve(s, cases, rng, rail_rep, kw):
    """solve - edit - solve: after the system has been solved once it is edited (apply_some_edit) and solved again; the
    new table is held to the projected state after the edit like any other"""
    from project import project
    r = apply_some_edit(s, rng, kw)
    if r is None:
        return
    if r["exc"] is not None:
        c = drv_solve.BuildFailure(s, "edit", {}, r["exc"]).case(len(cases))
        cases.append(c)
        return
    what, edit, kw = r["what"], r["edit"], r["kw"]
    anom = project(s)["anom"]
    if anom:
        # the accepted edit left the registries inconsistent: there is no well-defined system to report on
        c = drv_solve.BuildFailure(s, "edit", {"what": what}, RuntimeError("registries inconsistent after the edit: %r" % (anom[:3],))).case(len(cases))
        c["after_edit"] = what
        cases.append(c)
        return
    c = drv_solve.solve_case(s, len(cases), rail_rep=rail_rep, **kw)
    c["after_edit"] = what
    if edit:
        c["edit"], c["hasedit"] = edit, True
    cases.append(c)


def shared_list_twin(st, gen_kw, rng, cases, rail_rep, kw):
    """two systems are built from the same behaviour, the caller re-using ONE parent-list object for the mux of both; a
    mux input of the first is then renamed (change_comp).  The second, never edited system must still be the system
    that was built: its table is validated like any other"""
    import random as _random
    from model import build
    from project import project
    from rebuild import desc_of
    k = rng.randrange(1 << 30)
    shared = {}
    try:
        s1 = drv_solve.build_system(st, gen.Gen(_random.Random(k), **(gen_kw or {})), _random.Random(k + 1), shared=shared)
        s2 = drv_solve.build_system(st, gen.Gen(_random.Random(k), **(gen_kw or {})), _random.Random(k + 1), shared=shared)
        p1 = project(s1)
        comps = {c["name"]: c for c in p1["comps"]}
        ins = [x for c in p1["comps"] if c["cls"] == "PMux" for x in c["par"]]
        if not ins:
            return
        x = rng.choice(ins)
        d = desc_of(comps[x])
        d["name"] = "zz"
        s1.change_comp(x, comp=build(d), group=comps[x]["group"], rail="")     # (a rename may not keep the old rail name)
    except drv_solve.BuildFailure as bf:
        cases.append(bf.case(len(cases)))
        return
    except Exception as e:
        cases.append(drv_solve.BuildFailure(None, "rename of a mux input", {}, e).case(len(cases)))
        return
    c = drv_solve.solve_case(s2, len(cases), rail_rep=rail_rep, **kw)
    c["after_edit"] = "twin built from the same parent-list object; the other system's mux input %s was renamed" % x
    cases.append(c)


def fixed_cases(cases, builder_list):
    """append the committed reproducers of open findings (always executed)"""
    for b in builder_list:
        s, kw = b()
        cases.append(drv_solve.solve_case(s, len(cases), **kw))


def _f1_system():
    from sysloss.system import System
    from sysloss.components import Source, ILoad
    s = System("F1", Source("neg", vo=-12.0, rs=1.0))
    s.add_comp("neg", comp=ILoad("load", ii=1.0))
    return s, {}


STD_ASSUME = ["numbers are compared in exact decimal arithmetic with the two tolerance classes of DESIGN.md section 5",
              "generated parameters: |V| in [0.5, 1000], loads >= 1 uA, <= 12 components, modest series drops",
              "projection of System._g / _g.attrs is the abstract state the relations are evaluated on"]


def _run(ctx, prop, n_q, n_t, rule, gen_kw=None, case_kw=None, filt=None, variants=1, post=None, extra_fixed=(), prefix=None, matrix=(0, 0),
         skel=(0, 0), skel_want=None, skel_big=False, edit_p=0.35):
    n = n_q if ctx.quick else n_t
    res, cases = solve_campaign(ctx, n, gen_kw, case_kw, filt, variants, post, matrix=matrix[0] if ctx.quick else matrix[1],
                                skel=skel[0] if ctx.quick else skel[1], skel_want=skel_want, skel_big=skel_big, edit_p=edit_p)
    if prop in ("C01", "C02"):
        mc_laws(ctx, res)
    if extra_fixed:
        extra = []
        for b in extra_fixed:
            s, kw = b()
            extra.append(drv_solve.solve_case(s, 10 ** 6 + len(extra), **kw))
        validate_cases(ctx, res, extra)
    # hand-built scenarios (structural situations random generation reaches only now and then), also solved phase by phase
    import scenarios
    sc = []
    for name, s_or_exc, kw in scenarios.build_all() + scenarios.build_histories():
        if isinstance(s_or_exc, Exception):
            sc.append(drv_solve.BuildFailure(None, "scenario " + name, {}, s_or_exc).case(4 * 10 ** 6 + len(sc)))
            continue
        c = drv_solve.solve_case(s_or_exc, 4 * 10 ** 6 + len(sc), rail_rep=True, **kw)
        c["scenario"] = name
        sc.append(c)
        for p in list(s_or_exc.get_sys_phases())[:2]:
            c2 = drv_solve.solve_case(s_or_exc, 4 * 10 ** 6 + len(sc), rail_rep=True, phase=p, **kw)
            c2["scenario"] = name + " phase " + p
            sc.append(c2)
    validate_cases(ctx, res, sc)
    res.extra["scenarios"] = len(sc)
    # every solve() table the repository's own test-suite produces (recorded from a scratch copy of /repo/tests)
    import repotests
    rt = repotests.for_checks()
    if rt["solve_cases"]:
        validate_cases(ctx, res, rt["solve_cases"])
    res.extra["repository_suite"] = {"pytest": rt["pytest"], "solve_tables": len(rt["solve_cases"]),
                                     "dropped_unmodelled": rt["dropped_unmodelled"]}
    res.assumptions = STD_ASSUME
    return conclude(prop, ctx, res, rule=rule + "; plus every solve() table of the repository's own test-suite", clause_prefix=prefix)


def std_case_kw(rng, s):
    kw = dict(ta=rng.choice([25.0, -40.0, 0.0, 85.0]), energy=rng.random() < 0.5, rail_rep=True)
    if rng.random() < 0.2:
        kw["tags"] = {"Run": 7, "who": "x"}      # extra columns in front of the table; everything else must be as without
    if rng.random() < 0.15:
        kw["quiet"] = False
    return kw


def run_c01(ctx):
    return _run(ctx, "C01", 150, 3000,
                "numeric instantiations (random in range, constant and 1-D/2-D tabulated parameters, both polarities, "
                "1-3 sources, mux with 1-4 inputs, phases) of TLC-generated construction histories; every component row "
                "of every phase is held to C01.Link.* and C01.Law.*; distinct_nontrivial = distinct structures",
                gen_kw=dict(neg=0.3, tables=0.4, zero_src=0.12), case_kw=std_case_kw, extra_fixed=[_f1_system], matrix=(400, 2000),
                skel=(150, 8000))


def run_c02(ctx):
    return _run(ctx, "C02", 150, 3000,
                "as C01 with ta in {-40,0,25,85}, random thermal resistances, loads with loss true/false; every row is held to "
                "the accounting clauses (power, loss range, efficiency, row energy, thermal) and every phase to the system balance",
                gen_kw=dict(neg=0.3, tables=0.4, zero_src=0.12), case_kw=std_case_kw, extra_fixed=[_f1_system], matrix=(400, 2000),
                skel=(100, 8000))


def has_mux(sysst):
    return any(c["cls"] == "PMux" for c in sysst["comps"].values())


def c04_case_kw(rng, s):
    kw = std_case_kw(rng, s)
    if rng.random() < 0.3:
        # coarse solver tolerances: a dead rail is dead by structure, not by convergence
        kw["vtol"], kw["itol"] = rng.choice([(1e-3, 1e-3), (1e-2, 1e-3), (1e-6, 1e-2)])
    return kw


def run_c04(ctx):
    return _run(ctx, "C04", 150, 3000,
                "systems with 0 V sources, phase-inactive sources / converters / regulators / switches / muxes and muxes without "
                "live input; every row below a dead element must be exactly zero, sleeping components draw exactly iis",
                gen_kw=dict(neg=0.15, zero_src=0.3, tables=0.1), case_kw=c04_case_kw, matrix=(200, 2000), skel=(200, 12000))


def run_c05(ctx):
    return _run(ctx, "C05", 140, 2500,
                "systems with a PMux (1-4 inputs, fed from sources / components / the same source, scalar and per-input rs, "
                "0 V and phase-inactive inputs); mux rows are held to the C05 clauses",
                gen_kw=dict(neg=0.15, zero_src=0.3, tables=0.2), case_kw=std_case_kw, filt=has_mux, matrix=(200, 2000),
                skel=(240, 12000), skel_big=True, edit_p=0.8,
                skel_want=[lambda S: any(c["cls"] == "PMux" and len(S["par"][n]) > 1 for n, c in S["comps"].items()),
                           _regulated_input_of_other_source])


def has_phases(sysst):
    return len(sysst["sysph"]) > 0


def c06_post(s, cases, rng):
    """solve(phase=p) must be the p-rows of the all-phase table; an unknown phase is a ValueError"""
    base = cases[-1]
    phs = [p["name"] for p in base["st"]["sysph"]]
    if base["outcome"] != "ok" or not phs:
        return
    p = rng.choice(phs)
    kw = dict(base.get("kw", {}))
    kw["phase"] = p
    c = drv_solve.solve_case(s, len(cases), **kw)
    c["slice_of"] = base["table"]
    c["has_slice"] = True
    cases.append(c)
    cases.append(drv_solve.solve_case(s, len(cases), phase="nosuchphase"))


def run_c06(ctx):
    return _run(ctx, "C06", 110, 2000,
                "systems with 2-3 system phases and TLC-chosen per-component phase configurations (lists for sources/converters/"
                "regulators/switches/mux, tables for loads); every phase's rows are validated with that phase's behaviour; "
                "solve(phase=p) is compared with the all-phase table; an unknown phase must raise ValueError",
                gen_kw=dict(neg=0.1, tables=0.15), case_kw=std_case_kw, filt=has_phases, post=c06_post, matrix=(250, 2000))


def _two_sources_joined(S):
    """two sources, and (three times out of four) a mux with several inputs that joins them"""
    if sum(1 for c in S["comps"].values() if c["cls"] == "Source") < 2:
        return False
    mux = any(c["cls"] == "PMux" and len(S["par"][n]) > 1 for n, c in S["comps"].items())
    return mux or (int(hashlib.sha1(json.dumps(S, sort_keys=True, default=str).encode()).hexdigest()[:6], 16) % 4 == 0)


def _regulated_input_of_other_source(S):
    """a mux whose FIRST input is a switchable element (regulator) that hangs on one source while a later input comes
    from another source: the attribution of the mux subtree depends on whether the first input delivers anything"""
    def root(n):
        while S["par"][n]:
            n = S["par"][n][0]
        return n
    for m, c in S["comps"].items():
        ins = S["par"][m]
        if c["cls"] == "PMux" and len(ins) > 1 and S["comps"][ins[0]]["cls"] == "Converter":
            if any(root(x) != root(ins[0]) for x in ins[1:]):
                return True
    return False


def c07_post(s, cases, rng):
    """one phase solved on its own with energy=True: its 24 h energy is still power x the phase's share of the whole
    cycle (all declared phases), and Domain / Subsystem / total rows obey the same relations"""
    base = cases[-1]
    phs = [p["name"] for p in base["st"]["sysph"]]
    if base["outcome"] != "ok" or not phs:
        return
    cases.append(drv_solve.solve_case(s, len(cases), phase=rng.choice(phs), energy=True, ta=25.0))


def run_c07(ctx):
    return _run(ctx, "C07", 150, 3000,
                "multi-source and single-source systems, with and without mux and phases, energy=True in half of the cases; "
                "Domain column, Subsystem, System total, System average and energy cells are recomputed from the component rows",
                gen_kw=dict(neg=0.15, zero_src=0.15, tables=0.1),
                case_kw=lambda rng, s: dict(ta=25.0, energy=rng.random() < 0.7, rail_rep=False), post=c07_post,
                skel=(240, 8000), skel_big=True, skel_want=[_two_sources_joined, _regulated_input_of_other_source])


def has_rails(sysst):
    return any(c["rail"] != "" for c in sysst["comps"].values())


def run_c08(ctx):
    return _run(ctx, "C08", 140, 2500,
                "systems with unique rail names on non-load components (and some without any rail); rail_rep() and solve() are "
                "recorded from the same state and related by TLC: rail set per phase, voltage of the owner, sums over the fed components, "
                "union of warnings",
                gen_kw=dict(neg=0.15, zero_src=0.15, tables=0.1, limits=gen.random_limits),
                case_kw=lambda rng, s: dict(ta=25.0, rail_rep=True),
                skel=(150, 8000), skel_want=lambda S: any(c["rail"] for c in S["comps"].values()))


def replay_solve(ctx, path):
    with open(path) as f:
        body = json.load(f)
    prop = body["property"]
    case = body["trace"]["events"][-1]
    s = rebuild(case["st"])
    from decwire import undec
    a = case["args"]
    res = Result()
    if "sweeps" in case:
        # a sweep-level record of the solver loop (TraceSolver): the call is made again under the tap with the recorded
        # settings and every run of the loop for the recorded phase is validated sweep by sweep; the table black-box
        kw = dict(vtol=float(undec(a["vtol"])), itol=float(undec(a["itol"])), maxiter=a["maxiter"])
        if case.get("phase"):
            kw["phase"] = case["phase"]
        tap = solvertap.SolverTap()
        tap.install()
        try:
            c = drv_solve.solve_case(s, 0, **kw)
            got = [r for r in tap.take() if r["phase"] == case.get("phase", "")]
        finally:
            tap.uninstall()
        for j, run in enumerate(got):
            run.update(id=10 ** 6 + j, case=0, has_table=False, tv=[], ti=[], has_nref=False, nref=0,
                       args={"vtol": _cell(kw["vtol"]), "itol": _cell(kw["itol"]), "maxiter": int(kw["maxiter"])})
            if c["outcome"] == "exc" and j == len(got) - 1 and run["end"] is not None:
                run["end"] = dict(run["end"], kind="raise", exc=c["exc"])
        if got:
            verd, stat, _ = tlc.validate("TraceSolver.tla", "TraceSolver.cfg", [got], ctx.work)
            res.verd += verd
    else:
        kw = dict(phase=a["phase"], ta=float(undec(a["ta"])), vtol=float(undec(a["vtol"])), itol=float(undec(a["itol"])),
                  energy=a["energy"], maxiter=a["maxiter"])
        c = drv_solve.solve_case(s, 0, rail_rep=case.get("hasrail", False), **kw)
    validate_cases(ctx, res, [c])
    bad = [v for v in res.verd if v["clause"].startswith(prop + ".")]
    for v in bad:
        print("replay: clause %s fails for component %r phase %r" % (v["clause"], v["op"], v.get("phase", "")))
    print("replay: %s" % ("property violated" if bad else "no violation on the current tree"))
    return 1 if bad else 0


REGISTRY = {p: {"run": f, "replay": replay_solve} for p, f in
            [("C01", run_c01), ("C02", run_c02), ("C04", run_c04), ("C05", run_c05), ("C06", run_c06),
             ("C07", run_c07), ("C08", run_c08)]}


# ---------------------------------------------------------------------------------------------
# C09: limits placed relative to the solved values (far below / just below / equal / just above /
# far above, on the min and the max side, either sign convention), then solved again
def _quantities(row, ta, has_t):
    vi, vo = row["Vin (V)"], row["Vout (V)"]
    q = {"vi": vi, "vo": vo, "vd": abs(vi) - abs(vo), "ii": row["Iin (A)"], "io": row["Iout (A)"],
         "pi": row["Power (W)"], "pl": row["Loss (W)"]}
    q["po"] = q["pi"] - q["pl"]
    if has_t and row["Temp. rise (°C)"] != "":
        q["tr"], q["tp"] = row["Temp. rise (°C)"], row["Peak temp. (°C)"]
    else:
        q["tr"], q["tp"] = 0.0, ta
    return q


def _place(rng, x, signed):
    """a bound in a chosen relation to the value x (magnitude unless signed)"""
    import math
    v = x if signed else abs(x)
    rel = rng.choice(["far_below", "just_below", "equal", "just_above", "far_above"])
    if rel == "equal":
        b = v
    elif rel == "just_below":
        b = math.nextafter(v, -math.inf)
    elif rel == "just_above":
        b = math.nextafter(v, math.inf)
    elif rel == "far_below":
        b = v - abs(v) * rng.uniform(0.05, 0.9) - rng.choice([0.0, 1e-9])
    else:
        b = v + abs(v) * rng.uniform(0.05, 5.0) + rng.choice([0.0, 1e-9])
    if not signed and rng.random() < 0.2:
        b = -b
    return float(b), rel


def c09_post(s, cases, rng):
    import copy
    from decwire import cell
    base = cases[-1]
    if base["outcome"] != "ok":
        return
    st = base["st"]
    kw = dict(base.get("kw", {}))
    ta = kw.get("ta", 25.0)
    try:
        s1 = rebuild(st)
        df = s1.solve(**kw)
    except Exception:
        return
    has_t = "Temp. rise (°C)" in df.columns
    phs = [p["name"] for p in st["sysph"]] or [""]
    ph = rng.choice(phs)
    st2 = copy.deepcopy(st)
    placed = []
    comps = [c for c in st2["comps"]]
    rng.shuffle(comps)
    for c in comps[: rng.randint(1, 4)]:
        rows = df[(df["Component"] == c["name"]) & ((df["Phase"] == ph) if "Phase" in df.columns else True)]
        if len(rows) != 1:
            continue
        q = _quantities(rows.iloc[0].to_dict(), ta, has_t)
        keys = gen.LIMKEYS.get(c["cls"], gen.ALLKEYS)
        lim = {k: v for k, v in c["pay"]["limits"]}
        for k in rng.sample(keys, rng.randint(1, min(3, len(keys)))):
            side = rng.choice(["max", "min", "both"])
            lo, hi = (-1.0e6, 1.0e6) if k == "tp" else (0.0, 1.0e6)
            rels = []
            if side in ("max", "both"):
                hi, r = _place(rng, q[k], k == "tp")
                rels.append("max:" + r)
            if side in ("min", "both"):
                lo, r = _place(rng, q[k], k == "tp")
                rels.append("min:" + r)
            lim[k] = [cell(lo), cell(hi)]
            placed.append((c["name"], k, rels))
        c["pay"]["limits"] = [[k, v] for k, v in lim.items()]
    try:
        s2 = rebuild(st2)
    except Exception:
        return
    c2 = drv_solve.solve_case(s2, len(cases), **kw)
    c2["placed"] = placed
    cases.append(c2)


def run_c09(ctx):
    return _run(ctx, "C09", 130, 2500,
                "random limit dictionaries (any subset of keys incl. non-applicable ones, either sign convention) and, in a second pass, "
                "bounds placed far below / just below (1 ulp) / equal / just above / far above the solved value on the min and max side; "
                "the Warnings cell of every row must name exactly the exceeded applicable limits, roll-ups follow",
                gen_kw=dict(neg=0.2, zero_src=0.1, tables=0.1, limits=gen.random_limits),
                case_kw=lambda rng, s: dict(ta=rng.choice([25.0, -40.0, 85.0]), energy=False, rail_rep=False),
                post=c09_post)


REGISTRY["C09"] = {"run": run_c09, "replay": replay_solve}


# ---------------------------------------------------------------------------------------------
# C03: the solver loop
import random as _random
import re as _re
import warnings as _warnings
from project import project as project_
import solvertap
import designed as _designed
from decwire import cell as _cell


def _mc_solver(ctx, res):
    m = tlc.run_mc("Solver.tla", "MCSolver.cfg", ctx.work, workers=4)
    m["name"] = "Solver loop, maxiter 0..6"
    res.mc.append(m)
    if not m["ok"]:
        if _re.search(r"Invariant \w+ is violated", m["out"]):
            res.mc_failures.append(m["out"][m["out"].find("Error:"):][:4000])
        else:
            raise tlc.TLCError(m["out"][-2000:])


def _f19_system():
    from sysloss.system import System
    from sysloss.components import Source, RLoss, Converter, ILoad
    s = System("F19", Source("bat", vo=13.0))
    s.add_comp("bat", comp=RLoss("wire", rs=146708.0))
    s.add_comp("wire", comp=Converter("boost", vo=41.76, eff=0.678, iq=3.55e-4))
    s.add_comp("boost", comp=ILoad("sensor", ii=0.5e-6))
    vin = 13.0
    for _ in range(200):
        iin = 41.76 * 0.5e-6 / (vin * 0.678)
        vin = 13.0 - 146708.0 * iin
    d = {"bat": dict(vin=13.0, vout=13.0, iin=iin, iout=iin), "wire": dict(vin=13.0, vout=vin, iin=iin, iout=iin),
         "boost": dict(vin=vin, vout=41.76, iin=iin, iout=0.5e-6), "sensor": dict(vin=41.76, vout=0.0, iin=0.5e-6, iout=0.0)}
    return s, d


def _f16_system():
    from sysloss.system import System
    from sysloss.components import Source, Rectifier, ILoad
    s = System("F16", Source("ac", vo=12.0))
    s.add_comp("ac", comp=Rectifier("bridge", rs=[0.1, 0.2]))
    s.add_comp("bridge", comp=ILoad("load", ii=0.1))
    return s


def run_c03(ctx):
    res = Result()
    rng = ctx.rng
    _mc_solver(ctx, res)
    q = ctx.quick
    n_std, n_des, n_over = (50, 70, 50) if q else (800, 1500, 800)
    behs = build_behaviours(ctx, n_std + n_des * 2 + n_over + 20)
    rng.shuffle(behs)
    tap = solvertap.SolverTap()
    tap.install()
    cases, runs = [], []

    def settings(n_iter):
        # (each tolerance is the tighter one once: a stopping rule that applies one tolerance to both vectors stops early)
        out = [dict(), dict(vtol=1e-3, itol=1e-3), dict(vtol=1e-9, itol=1e-9), dict(vtol=1e-12, itol=1e-4), dict(vtol=1e-3, itol=1e-10)]
        if n_iter is not None:
            out += [dict(maxiter=m) for m in {0, 1, max(n_iter - 2, 0), max(n_iter - 1, 0), n_iter, n_iter + 1}]
        return out

    def record(s, kw, tag, nref=None):
        """nref: sweeps per phase of the same call with the default (practically unlimited) budget, when it returned"""
        c = drv_solve.solve_case(s, len(cases), **kw)
        c["tag"] = tag
        # (only runs of the loop on THIS system: the recorded component names are those of the case)
        mine = sorted(x["name"] for x in c["st"]["comps"])
        got = [r for r in tap.take() if sorted(r["names"]) == mine]
        c["sweeps"] = len(got[-1]["sweeps"]) if got else 0
        c["tap"] = bool(tap.active and got)
        c["sweeps_per_phase"] = [len(r["sweeps"]) for r in got]
        for j, run in enumerate(got):
            if c["outcome"] == "ok" and run["end"] is not None and run["end"]["kind"] != "return":
                # the call handed back a table that contains this phase: whatever the inner routine thought, the
                # observable end of this run of the loop is "returned"
                run["end"] = dict(run["end"], kind="return", exc="")
            # the loop is judged against the settings the CALLER of solve() requested (defaults of solve()), not against
            # what the inner routine happened to receive; the outcome of the last run is the outcome of the call
            run["inner_args"] = run["args"]
            run["args"] = {"vtol": _cell(kw.get("vtol", 1e-6)), "itol": _cell(kw.get("itol", 1e-6)), "maxiter": int(kw.get("maxiter", 10000))}
            if j == len(got) - 1 and c["outcome"] == "exc" and run["end"] is not None:
                run["end"] = dict(run["end"], kind="raise", exc=c["exc"])
            run["has_nref"] = bool(nref is not None and j < len(nref))
            run["nref"] = int(nref[j]) if run["has_nref"] else 0
            run["id"] = len(runs)
            run["case"] = c["id"]
            run["has_table"] = c["outcome"] == "ok"
            run["tv"], run["ti"] = [], []
            if c["outcome"] == "ok":
                rows = {r["comp"]: r for r in c["table"]["rows"] if r["phase"] == run["phase"] and r["type"]}
                blank = {"vout": [2, 0], "iin": [2, 0]}       # a component the table does not list for this phase
                run["tv"] = [rows.get(n, blank)["vout"] for n in run["names"]]
                run["ti"] = [rows.get(n, blank)["iin"] for n in run["names"]]
            runs.append(run)
        cases.append(c)
        return c

    try:
        it = iter(behs)
        # (a)+(b): ordinary systems under many tolerance / maxiter settings
        for _ in range(n_std):
            st = next(it)
            s = drv_solve.build_system(st, gen.Gen(rng, neg=0.2, tables=0.2, negphase=0.5), rng)
            c0 = record(s, {}, "std")
            n_iter = c0["sweeps"] if c0["outcome"] == "ok" else None
            for kw in settings(n_iter)[1:]:
                # (runs that differ from the first one in the budget only are also judged against its sweep counts)
                record(s, kw, "std", nref=c0["sweeps_per_phase"] if (c0["outcome"] == "ok" and c0.get("tap") and set(kw) == {"maxiter"}) else None)
            # with phases: maxiter around the sweep count of EVERY phase (a phase other than the last may be the slow one)
            if c0["outcome"] == "ok" and len(set(c0["sweeps_per_phase"])) > 1:
                for m in sorted({x - 1 for x in c0["sweeps_per_phase"]} | set(c0["sweeps_per_phase"])):
                    if m >= 0 and m not in (n_iter, n_iter - 1, n_iter + 1):
                        record(s, dict(maxiter=m), "std")
        # an ILoad whose phase currents are written with a minus sign (magnitudes, as in the constructor), in every position
        # of the coverage matrix: behind a source resistance / series element the state must stay physical
        import matrix as _mx
        mstates, mcnt = _mx.matrix_states(ctx)
        res.mc.append(mcnt)
        for mst in [m for m in mstates if m["kind"] == "ILoad" and m["ph"] == "valued"]:
            try:
                sm = _mx.build(mst, rng)
                sm.set_comp_phases("X", {"run": -0.05, "idle": -0.025})
            except Exception:
                continue
            record(sm, {}, "std")
        # (c): designed steady states with modest drops must be found
        nd = 0
        for st in it:
            sysst = st[-1]["sys"]
            if any(c["cls"] == "PMux" and len(sysst["par"][n]) > 1 for n, c in sysst["comps"].items()):
                continue
            kdes = rng.randrange(1 << 30)
            # (designs that are re-parameterised to 1/50 of their currents below start from loads >= 5 mA, so that the
            #  light twin stays above 0.1 mA: below that the solver's absolute tolerance of 1e-8 A is a visible fraction)
            heavy = rng.random() < 0.2
            descs, dg = _designed.design(sysst, _random.Random(kdes), imin=5e-3 if heavy else 1e-5)
            s = _designed.build_designed(descs)
            c = record(s, {}, "designed")
            c["has_design"] = True
            c["design"] = [{"name": n, "vin": _cell(d["vin"]), "vout": _cell(d["vout"]), "iin": _cell(d["iin"]),
                            "iout": _cell(d["iout"])} for n, d in dg.items()]
            nd += 1
            if heavy or rng.random() < 0.25:
                # the same object is re-parameterised in place (change_comp keeps every node) to a second designed steady
                # state: nothing of the first solution may survive - the second one must be found just the same
                try:
                    from model import build as _build
                    # half of the time the SAME design with every current 50 times smaller (series resistances 50 times
                    # larger): anything kept from the first solution is 50 times too heavy for the new system
                    descs2, dg2 = (_designed.design(sysst, _random.Random(kdes), iscale=0.02, imin=5e-3) if heavy
                                   else _designed.design(sysst, rng))
                    with _warnings.catch_warnings():
                        _warnings.simplefilter("ignore")
                        for d in descs2:
                            s.change_comp(d["name"], comp=_build(d), rail=d["rail"], group=d["group"])
                    c2 = record(s, {}, "designed")
                    c2["has_design"] = True
                    c2["design"] = [{"name": n, "vin": _cell(d["vin"]), "vout": _cell(d["vout"]), "iin": _cell(d["iin"]),
                                     "iout": _cell(d["iout"])} for n, d in dg2.items()]
                    c2["after_edit"] = "re-parameterised in place to a second designed state"
                    if c2["outcome"] != "ok":
                        # does a system built from scratch with these parameters solve?  (tells a consequence of the
                        # in-place history from finding F19, which a fresh system shows as well)
                        try:
                            with _warnings.catch_warnings():
                                _warnings.simplefilter("ignore")
                                rebuild(project_(s)).solve()
                            c2["fresh_outcome"] = "ok"
                        except Exception:
                            c2["fresh_outcome"] = "exc"
                except Exception:
                    pass
            if nd >= n_des:
                break
        # committed reproducer of finding F19 (always executed)
        s19, d19 = _f19_system()
        c = record(s19, {}, "designed")
        c["has_design"] = True
        c["design"] = [{"name": n, "vin": _cell(d["vin"]), "vout": _cell(d["vout"]), "iin": _cell(d["iin"]),
                        "iout": _cell(d["iout"])} for n, d in d19.items()]
        # committed reproducer of finding F16 (always executed)
        record(_f16_system(), {}, "std")
        # hand-built scenarios and edit histories (harness/scenarios.py): solved under the tap like every other system
        import scenarios
        built = scenarios.build_all() + scenarios.build_histories()
        tap.take()         # (the history builders analyse their systems on the way: those runs belong to no case)
        for name, s_or_exc, kw in built:
            if not isinstance(s_or_exc, Exception):
                record(s_or_exc, {}, "scenario")
        # (d): overloaded systems must raise or return a physical converged state: one fixed system per series element that
        # can give way (harness/scenarios.py), then generated ones
        for name, s_or_exc, kw in scenarios.overloads():
            if not isinstance(s_or_exc, Exception):
                record(s_or_exc, {}, "overload")
        for _ in range(n_over):
            st = next(it, None)
            if st is None:
                break
            s = drv_solve.build_system(st, gen.Gen(rng, neg=0.2, tables=0.1, overload=0.35), rng)
            record(s, {}, "overload")
    finally:
        tap.uninstall()
    validate_cases(ctx, res, cases)
    # sweep-level traces
    for r in runs:
        r["id"] = 10 ** 6 + r["id"]
    res.add_traces([{"tid": r["id"], "kind": "solve", "events": [dict(r, st=cases[r["case"]]["st"])]} for r in runs])
    verd, stat, states = tlc.validate("TraceSolver.tla", "TraceSolver.cfg", [runs[i::tlc.NCPU] for i in range(tlc.NCPU) if runs[i::tlc.NCPU]], ctx.work)
    res.verd += verd
    for k, v in stat.items():
        res.stat[k] = res.stat.get(k, 0) + v
    res.extra["trace_validation_states"] += states
    tags = {}
    for c in cases:
        k = "%s:%s%s" % (c["tag"], c["outcome"], (":" + c["exc"]) if c["exc"] else "")
        tags[k] = tags.get(k, 0) + 1
    res.extra["cases_by_kind"] = tags
    res.extra["solver_runs"] = len(runs)
    res.extra["solver_tap"] = {"active": tap.active, "errors_inside_the_tap": tap.broken}
    res.extra["sweeps"] = sum(len(r["sweeps"]) for r in runs)
    res.extra["distinct_nontrivial"] = len({struct_digest(c["st"]) for c in cases})
    res.samples = [{"kind": c["tag"], "outcome": c["outcome"], "exc": c["exc"], "sweeps": c["sweeps"], "kw": c.get("kw", {}),
                    "components": [(x["name"], x["cls"]) for x in c["st"]["comps"]]} for c in cases[:2] + cases[-2:]]
    res.assumptions = STD_ASSUME + ["the tap wraps System._solve/_fwd_prop/_back_prop; if they are renamed the sweep-level clauses are not evaluated (reduced coverage, no alarm)"]
    return conclude("C03", ctx, res, rule=(
        "(a) every run of the solver loop recorded sweep by sweep (tolerances 1e-3..1e-12, maxiter 0,1,N-2..N+1) must be a behaviour of Solver.tla under the exact "
        "stopping rule; (b) every returned table is finite, reproduces every law within the requested tolerance and no passive element inverts/amplifies; "
        "(c) designed steady states with drops <= 6 % per element must be found; (d) overloaded systems must raise RuntimeError/ValueError or return such a state"))


REGISTRY["C03"] = {"run": run_c03, "replay": replay_solve}
