"""C01 C02 C04 C05 C06 C07 C08 C09: relations between an abstract system state and the tables
solve() / rail_rep() return, judged by TLC (spec/TraceSolve.tla) on numeric instantiations of
TLC-generated structures."""
import json
import hashlib

import tlc
import gen
import drv_solve
from check import Result, conclude
from rebuild import rebuild


def build_behaviours(ctx, n, depths=(4, 7, 10, 13)):
    behs = []
    per = max(1, n // len(depths))
    for d in depths:
        b, _ = tlc.run_sim("SimEdit.tla", "SimBuild.cfg", ctx.work, num=per, depth=d, seed=ctx.seed * 1000 + d)
        behs += b
    return behs


def validate_cases(ctx, res, cases):
    traces = [{"tid": c["id"], "kind": "solve", "events": [c]} for c in cases]
    res.add_traces(traces)
    batches = [[t["events"][0] for t in b] for b in tlc.split(traces, tlc.NCPU)]
    verd, stat, states = tlc.validate("TraceSolve.tla", "TraceSolve.cfg", batches, ctx.work)
    res.verd += verd
    for k, v in stat.items():
        res.stat[k] = res.stat.get(k, 0) + v
    res.extra["trace_validation_states"] = res.extra.get("trace_validation_states", 0) + states


def struct_digest(st):
    """digest of the structure of a system (classes and links, not numbers)"""
    return hashlib.sha1(json.dumps(sorted((c["cls"], tuple(c["par"]), c["rail"] != "", c["pconf"]["t"]) for c in st["comps"]),
                                   default=str).encode()).hexdigest()[:12]


def solve_campaign(ctx, n_systems, gen_kw=None, case_kw=None, filt=None, variants=1, post=None):
    """generate systems, solve, validate.  filt(state_dict) selects structures of interest;
    post(system, case list, rng, next id) may append further cases for the same system"""
    res = Result()
    rng = ctx.rng
    behs = build_behaviours(ctx, int(n_systems * (3 if filt else 1.1)) + 8)
    cases, structs = [], set()
    n = 0
    for st in behs:
        if n >= n_systems:
            break
        if filt and not filt(st[-1]["sys"]):
            continue
        for _ in range(variants):
            g = gen.Gen(rng, **(gen_kw or {}))
            s = drv_solve.build_system(st, g, rng)
            kw = dict(case_kw(rng, s) if case_kw else {})
            rr = kw.pop("rail_rep", False)
            c = drv_solve.solve_case(s, len(cases), rail_rep=rr, **kw)
            cases.append(c)
            structs.add(struct_digest(c["st"]))
            if post:
                post(s, cases, rng)
        n += 1
    validate_cases(ctx, res, cases)
    res.extra["systems"] = n
    res.extra["distinct_structures"] = len(structs)
    res.extra["solve_outcomes"] = {}
    for c in cases:
        k = c["outcome"] + (":" + c["exc"] if c["exc"] else "")
        res.extra["solve_outcomes"][k] = res.extra["solve_outcomes"].get(k, 0) + 1
    res.extra["distinct_nontrivial"] = len(structs)
    res.samples = [{"components": [(c["name"], c["cls"], c["par"]) for c in cs["st"]["comps"]],
                    "phases": [p["name"] for p in cs["st"]["sysph"]], "outcome": cs["outcome"]} for cs in cases[:3]]
    return res, cases


def fixed_cases(cases, builder_list):
    """append the committed reproducers of open findings (always executed)"""
    for b in builder_list:
        s, kw = b()
        cases.append(drv_solve.solve_case(s, len(cases), **kw))


def _f1_system():
    from sysloss.system import System
    from sysloss.components import Source, ILoad
    s = System("F1", Source("neg", vo=-12.0, rs=1.0))
    s.add_comp("neg", comp=ILoad("load", ii=1.0))
    return s, {}


STD_ASSUME = ["numbers are compared in exact decimal arithmetic with the two tolerance classes of DESIGN.md section 5",
              "generated parameters: |V| in [0.5, 1000], loads >= 1 uA, <= 12 components, modest series drops",
              "projection of System._g / _g.attrs is the abstract state the relations are evaluated on"]


def _run(ctx, prop, n_q, n_t, rule, gen_kw=None, case_kw=None, filt=None, variants=1, post=None, extra_fixed=(), prefix=None):
    n = n_q if ctx.quick else n_t
    res, cases = solve_campaign(ctx, n, gen_kw, case_kw, filt, variants, post)
    if extra_fixed:
        extra = []
        for b in extra_fixed:
            s, kw = b()
            extra.append(drv_solve.solve_case(s, 10 ** 6 + len(extra), **kw))
        validate_cases(ctx, res, extra)
    res.assumptions = STD_ASSUME
    return conclude(prop, ctx, res, rule=rule, clause_prefix=prefix)


def std_case_kw(rng, s):
    return dict(ta=rng.choice([25.0, -40.0, 0.0, 85.0]), energy=rng.random() < 0.5, rail_rep=True)


def run_c01(ctx):
    return _run(ctx, "C01", 150, 3000,
                "numeric instantiations (random in range, constant and 1-D/2-D tabulated parameters, both polarities, "
                "1-3 sources, mux with 1-4 inputs, phases) of TLC-generated construction histories; every component row "
                "of every phase is held to C01.Link.* and C01.Law.*; distinct_nontrivial = distinct structures",
                gen_kw=dict(neg=0.25, tables=0.3), case_kw=std_case_kw, extra_fixed=[_f1_system])


def run_c02(ctx):
    return _run(ctx, "C02", 150, 3000,
                "as C01 with ta in {-40,0,25,85}, random thermal resistances, loads with loss true/false; every row is held to "
                "the accounting clauses (power, loss range, efficiency, row energy, thermal) and every phase to the system balance",
                gen_kw=dict(neg=0.2, tables=0.25), case_kw=std_case_kw, extra_fixed=[_f1_system])


def has_mux(sysst):
    return any(c["cls"] == "PMux" for c in sysst["comps"].values())


def run_c04(ctx):
    return _run(ctx, "C04", 150, 3000,
                "systems with 0 V sources, phase-inactive sources / converters / regulators / switches / muxes and muxes without "
                "live input; every row below a dead element must be exactly zero, sleeping components draw exactly iis",
                gen_kw=dict(neg=0.15, zero_src=0.3, tables=0.1), case_kw=std_case_kw)


def run_c05(ctx):
    return _run(ctx, "C05", 140, 2500,
                "systems with a PMux (1-4 inputs, fed from sources / components / the same source, scalar and per-input rs, "
                "0 V and phase-inactive inputs); mux rows are held to the C05 clauses",
                gen_kw=dict(neg=0.15, zero_src=0.3, tables=0.1), case_kw=std_case_kw, filt=has_mux)


def has_phases(sysst):
    return len(sysst["sysph"]) > 0


def c06_post(s, cases, rng):
    """solve(phase=p) must be the p-rows of the all-phase table; an unknown phase is a ValueError"""
    base = cases[-1]
    phs = [p["name"] for p in base["st"]["sysph"]]
    if base["outcome"] != "ok" or not phs:
        return
    p = rng.choice(phs)
    kw = dict(base.get("kw", {}))
    kw["phase"] = p
    c = drv_solve.solve_case(s, len(cases), **kw)
    c["slice_of"] = base["table"]
    c["has_slice"] = True
    cases.append(c)
    cases.append(drv_solve.solve_case(s, len(cases), phase="nosuchphase"))


def run_c06(ctx):
    return _run(ctx, "C06", 110, 2000,
                "systems with 2-3 system phases and TLC-chosen per-component phase configurations (lists for sources/converters/"
                "regulators/switches/mux, tables for loads); every phase's rows are validated with that phase's behaviour; "
                "solve(phase=p) is compared with the all-phase table; an unknown phase must raise ValueError",
                gen_kw=dict(neg=0.1, tables=0.15), case_kw=std_case_kw, filt=has_phases, post=c06_post)


def run_c07(ctx):
    return _run(ctx, "C07", 150, 3000,
                "multi-source and single-source systems, with and without mux and phases, energy=True in half of the cases; "
                "Domain column, Subsystem, System total, System average and energy cells are recomputed from the component rows",
                gen_kw=dict(neg=0.15, zero_src=0.15, tables=0.1),
                case_kw=lambda rng, s: dict(ta=25.0, energy=rng.random() < 0.7, rail_rep=False))


def has_rails(sysst):
    return any(c["rail"] != "" for c in sysst["comps"].values())


def run_c08(ctx):
    return _run(ctx, "C08", 140, 2500,
                "systems with unique rail names on non-load components (and some without any rail); rail_rep() and solve() are "
                "recorded from the same state and related by TLC: rail set per phase, voltage of the owner, sums over the fed components, "
                "union of warnings",
                gen_kw=dict(neg=0.15, zero_src=0.15, tables=0.1, limits=gen.random_limits),
                case_kw=lambda rng, s: dict(ta=25.0, rail_rep=True))


def replay_solve(ctx, path):
    with open(path) as f:
        body = json.load(f)
    prop = body["property"]
    case = body["trace"]["events"][-1]
    s = rebuild(case["st"])
    from decwire import undec
    a = case["args"]
    kw = dict(phase=a["phase"], ta=float(undec(a["ta"])), vtol=float(undec(a["vtol"])), itol=float(undec(a["itol"])),
              energy=a["energy"], maxiter=a["maxiter"])
    c = drv_solve.solve_case(s, 0, rail_rep=case.get("hasrail", False), **kw)
    res = Result()
    validate_cases(ctx, res, [c])
    bad = [v for v in res.verd if v["clause"].startswith(prop + ".")]
    for v in bad:
        print("replay: clause %s fails for component %r phase %r" % (v["clause"], v["op"], v.get("phase", "")))
    print("replay: %s" % ("property violated" if bad else "no violation on the current tree"))
    return 1 if bad else 0


REGISTRY = {p: {"run": f, "replay": replay_solve} for p, f in
            [("C01", run_c01), ("C02", run_c02), ("C04", run_c04), ("C05", run_c05), ("C06", run_c06),
             ("C07", run_c07), ("C08", run_c08)]}
