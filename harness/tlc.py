"""Thin layer over the TLC command line: model checking runs, simulation (behaviour files),
state-graph dumps and sharded trace-validation runs.  All scratch data lives in a temporary
directory that the caller removes."""
import concurrent.futures as cf
import json
import os
import re
import shutil
import subprocess
import tempfile
import time

import tlaval

SPEC_DIR = os.path.join(os.path.dirname(os.path.dirname(os.path.abspath(__file__))), "spec")
JAR_CP = "/opt/veriftools/tla/tla2tools.jar:/opt/veriftools/tla/CommunityModules-deps.jar"
NCPU = os.cpu_count() or 4


class TLCError(RuntimeError):
    pass


def mkwork(prefix="sysloss-verif-"):
    return tempfile.mkdtemp(prefix=prefix)


def _java(args, env=None, cwd=SPEC_DIR, timeout=None, gc="-XX:+UseParallelGC", heap=None):
    cmd = ["java", gc, "-Xss64m"]
    # TLC unpacks its standard modules into a fresh java.io.tmpdir/tlc-* directory on every start and leaves it there:
    # keep those inside the run's scratch directory (removed with it) instead of littering /tmp
    if "-metadir" in args:
        tmpd = os.path.join(os.path.dirname(args[args.index("-metadir") + 1]), "jtmp")
        os.makedirs(tmpd, exist_ok=True)
        cmd.append("-Djava.io.tmpdir=" + tmpd)
    if heap:
        cmd.append("-Xmx" + heap)
    cmd += ["-cp", JAR_CP, "tlc2.TLC"] + args
    e = dict(os.environ)
    if env:
        e.update(env)
    p = subprocess.run(cmd, cwd=cwd, env=e, stdout=subprocess.PIPE, stderr=subprocess.STDOUT,
                       text=True, timeout=timeout)
    return p.returncode, p.stdout


def parse_counts(out):
    m = re.search(r"(\d+) states generated, (\d+) distinct states found", out)
    res = {"generated": int(m.group(1)) if m else 0, "distinct": int(m.group(2)) if m else 0}
    m = re.search(r"The depth of the complete state graph search is (\d+)", out)
    res["depth"] = int(m.group(1)) if m else 0
    return res


def run_mc(module, cfg, work, workers=NCPU, extra=(), timeout=3600, coverage=False):
    """exhaustive model checking; returns dict(ok, generated, distinct, depth, out)"""
    meta = os.path.join(work, "meta-" + os.path.basename(cfg))
    args = ["-workers", str(workers), "-metadir", meta, "-noGenerateSpecTE", "-config", cfg]
    if coverage:
        args += ["-coverage", "1"]
    args += list(extra) + [module]
    t0 = time.time()
    rc, out = _java(args, timeout=timeout)
    res = parse_counts(out)
    res.update(rc=rc, out=out, wall=time.time() - t0,
               ok=(rc == 0 and "Model checking completed. No error has been found." in out))
    shutil.rmtree(meta, ignore_errors=True)
    return res


def action_coverage(out):
    """per-action distinct/total counts from a `-coverage 1` run"""
    cov = {}
    for m in re.finditer(r"<(\w+) line \d+, col \d+ to line \d+, col \d+ of module (\w+)>: (\d+):(\d+)", out):
        cov[m.group(1)] = {"distinct": int(m.group(3)), "total": int(m.group(4))}
    return cov


def run_sim(module, cfg, work, num, depth, seed, timeout=1800):
    """`tlc -simulate`: returns a list of behaviours, each a list of (action, args) pairs
    (the Init state is skipped)"""
    d = os.path.join(work, "sim-%s-%d" % (os.path.basename(cfg), seed))
    os.makedirs(d, exist_ok=True)
    meta = os.path.join(work, "meta-sim-%d" % seed)
    args = ["-workers", "1", "-metadir", meta, "-noGenerateSpecTE", "-config", cfg, "-seed", str(seed),
            "-depth", str(depth), "-simulate", "file=%s/b,num=%d" % (d, num), module]
    rc, out = _java(args, timeout=timeout)
    behs = []
    for fn in sorted(os.listdir(d)):
        with open(os.path.join(d, fn)) as f:
            txt = f.read()
        states = []
        for blk in re.split(r"^STATE_\d+ == *$", txt, flags=re.M)[1:]:
            body = blk.split("\n\n\n")[0]
            body = re.split(r"^(\\\* <|=====)", body, flags=re.M)[0]
            states.append(tlaval.parse_state(body))
        if len(states) > 1:
            behs.append(states[1:])
    shutil.rmtree(d, ignore_errors=True)
    shutil.rmtree(meta, ignore_errors=True)
    if rc != 0 and not behs:
        raise TLCError("simulation failed:\n" + out[-3000:])
    return behs, parse_counts(out)


_EDGE = re.compile(r'^(-?\d+) -> (-?\d+) \[label="((?:[^"\\]|\\.)*)"')
_NODE = re.compile(r'^(-?\d+) \[label="((?:[^"\\]|\\.)*)"(,style = filled)?')


def run_dump(module, cfg, work, workers=NCPU, timeout=3600, extra=()):
    """exhaustive run with `-dump dot,actionlabels`; returns (init ids, edges dict src -> [(label, dst)], counts)"""
    meta = os.path.join(work, "meta-dump")
    dot = os.path.join(work, "graph")
    args = ["-workers", str(workers), "-metadir", meta, "-noGenerateSpecTE", "-config", cfg,
            "-dump", "dot,actionlabels", dot] + list(extra) + [module]
    rc, out = _java(args, timeout=timeout)
    if rc != 0 or "No error has been found" not in out:
        raise TLCError("dump run failed:\n" + out[-3000:])
    inits, edges, nodes = [], {}, {}
    with open(dot + ".dot") as f:
        for line in f:
            m = _EDGE.match(line)
            if m:
                lab = m.group(3).replace('\\"', '"').replace("\\\\", "\\")
                edges.setdefault(m.group(1), []).append((lab, m.group(2)))
                continue
            m = _NODE.match(line)
            if m:
                nodes[m.group(1)] = m.group(2).replace('\\"', '"').replace("\\\\", "\\").replace("\\n", "\n")
                if m.group(3):
                    inits.append(m.group(1))
    os.unlink(dot + ".dot")
    shutil.rmtree(meta, ignore_errors=True)
    return inits, edges, nodes, parse_counts(out)


def _validate_one(job):
    module, cfg, trace_file, out_file, meta = job
    env = {"TRACE_FILE": trace_file, "OUT_FILE": out_file}
    args = ["-workers", "1", "-metadir", meta, "-noGenerateSpecTE", "-config", cfg, module]
    t0 = time.time()
    rc, out = _java(args, env=env, gc="-XX:+UseSerialGC", heap="3g", timeout=7200)
    shutil.rmtree(meta, ignore_errors=True)
    if rc != 0 or not os.path.exists(out_file):
        i = out.find("Error:")
        return {"error": (out[i:i + 2500] + "\n...\n" if i >= 0 else "") + out[-1500:], "trace_file": trace_file}
    with open(out_file) as f:
        res = json.load(f)
    if "statlist" in res:      # list of evaluated clause names -> counts
        st = {}
        for c in res.pop("statlist"):
            st[c] = st.get(c, 0) + 1
        st["events"] = sum(st.values())
        res["stat"] = st
    res["wall"] = time.time() - t0
    res["states"] = parse_counts(out)
    return res


def validate(module, cfg, batches, work, jobs=NCPU):
    """batches: list of python lists of traces; each batch is checked by its own TLC process.
    Returns (verdicts, stats, tlc_states) or raises TLCError on a machinery failure."""
    todo = []
    for i, b in enumerate(batches):
        tf = os.path.join(work, "batch-%d.json" % i)
        with open(tf, "w") as f:
            json.dump(b, f)
        todo.append((module, cfg, tf, os.path.join(work, "out-%d.json" % i), os.path.join(work, "meta-v-%d" % i)))
    verd, stat, states = [], {}, 0
    with cf.ThreadPoolExecutor(max_workers=jobs) as ex:
        for res in ex.map(_validate_one, todo):
            if "error" in res:
                raise TLCError("trace validation run failed for %s:\n%s" % (res["trace_file"], res["error"]))
            verd += list(res["verd"])
            for c, n in res["stat"].items():
                stat[c] = stat.get(c, 0) + n
            states += res["states"]["distinct"]
    return verd, stat, states


def split(traces, n):
    """split a list of traces into <= n batches of similar event counts"""
    n = max(1, min(n, len(traces)))
    bins = [[] for _ in range(n)]
    sizes = [0] * n
    for t in sorted(traces, key=lambda t: -len(t["events"])):
        i = sizes.index(min(sizes))
        bins[i].append(t)
        sizes[i] += len(t["events"])
    return [b for b in bins if b]


def run_states(module, cfg, work, workers=NCPU, timeout=3600):
    """exhaustive run with `-dump`: returns (list of parsed states, counts, tlc output)"""
    meta = os.path.join(work, "meta-states")
    dump = os.path.join(work, "states")
    args = ["-workers", str(workers), "-metadir", meta, "-noGenerateSpecTE", "-config", cfg, "-dump", dump, module]
    rc, out = _java(args, timeout=timeout)
    ok = rc == 0 and "No error has been found" in out
    states = []
    path = dump + ".dump"
    if os.path.exists(path):
        with open(path) as f:
            txt = f.read()
        for blk in re.split(r"^State \d+:\s*$", txt, flags=re.M)[1:]:
            blk = blk.strip()
            if blk:
                states.append(tlaval.parse_state(blk))
        os.unlink(path)
    shutil.rmtree(meta, ignore_errors=True)
    # TLC's workers write the states in a varying order: a canonical order makes every sample drawn from them a
    # function of VERIF_SEED alone
    states.sort(key=lambda st: json.dumps(st, sort_keys=True, default=repr))
    res = parse_counts(out)
    res.update(ok=ok, out=out)
    return states, res


def run_tlaps(module, work, timeout=180):
    """TLAPS proof check of spec/proofs/<module> (theorems over all integers; nothing here depends on the library, so a
    missing or failing prover is recorded, never an alarm).  Returns dict(status, obligations, wall)."""
    pdir = os.path.join(SPEC_DIR, "proofs")
    exe = shutil.which("tlapm") or "/opt/veriftools/tlapm/bin/tlapm"
    if not os.path.exists(exe):
        return {"status": "unavailable", "obligations": 0, "wall": 0.0}
    t0 = time.time()
    cache = os.path.join(work, "tlaps-cache")
    try:
        p = subprocess.run([exe, "--toolbox", "0", "0", "--cache-dir", cache, module], cwd=pdir,
                           stdout=subprocess.PIPE, stderr=subprocess.STDOUT, text=True, timeout=timeout)
        out = p.stdout
    except Exception as e:   # timeout, exec failure
        return {"status": "error: %s" % type(e).__name__, "obligations": 0, "wall": round(time.time() - t0, 1)}
    finally:
        shutil.rmtree(cache, ignore_errors=True)
    m = re.search(r"All (\d+) obligations? proved", out)
    if m:
        return {"status": "proved", "obligations": int(m.group(1)), "wall": round(time.time() - t0, 1)}
    m = re.search(r"(\d+)/(\d+) obligations? failed", out)
    return {"status": "failed" if m else "error", "obligations": int(m.group(2)) if m else 0,
            "failed": int(m.group(1)) if m else 0, "wall": round(time.time() - t0, 1), "tail": out[-600:]}
