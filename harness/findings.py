"""Known findings: committed list of genuine defects that are recorded rather than repaired
(status "open") or that were repaired by a "fix:" commit (status "fixed"; suppresses nothing).
An open entry names the property, the clauses it may trip and a matcher - a predicate over the
failing event and its pre-state - so that a different violation of the same property is still a
VIOLATION.  The file is never written at run time."""
import json
import os

ROOT = os.path.dirname(os.path.dirname(os.path.abspath(__file__)))
FILE = os.path.join(ROOT, "known_findings.json")


def load():
    if not os.path.exists(FILE):
        return []
    with open(FILE) as f:
        return json.load(f)["findings"]


def _names(pre):
    return {c["name"] for c in pre["comps"]} if pre else set()


def _rails(pre):
    return {c["rail"] for c in pre["comps"]} - {""} if pre else set()


def _comp(pre, n):
    for c in pre["comps"] if pre else []:
        if c["name"] == n:
            return c
    return None


def _children(pre, n):
    return [c["name"] for c in pre["comps"] if n in c["par"]] if pre else []


LOADS = ("PLoad", "ILoad", "RLoad")


def m_del_comp_rail_target(ev, pre):
    t = ev["args"].get("target")
    return ev["op"] == "del_comp" and t not in _names(pre) and t in _rails(pre)


def m_set_comp_phases_by_rail(ev, pre):
    r = ev["args"].get("ref")
    return ev["op"] == "set_comp_phases" and r not in _names(pre) and r in _rails(pre)


def m_change_to_load_with_children(ev, pre):
    a = ev["args"]
    return ev["op"] == "change_comp" and a["comp"]["cls"] in LOADS and len(_children(pre, a.get("target"))) > 0


def m_change_same_name_rail(ev, pre):
    a = ev["args"]
    return ev["op"] == "change_comp" and a["comp"]["name"] == a.get("target") and a.get("rail", "") != ""


def m_change_to_second_mux(ev, pre):
    a = ev["args"]
    old = _comp(pre, a.get("target"))
    return ev["op"] == "change_comp" and a["comp"]["cls"] == "PMux" and old is not None and old["cls"] != "PMux"


def _is_mux_input(pre, n):
    return any(c["cls"] == "PMux" and len(c["par"]) > 1 and n in c["par"] for c in pre["comps"]) if pre else False


def m_rename_mux_input(ev, pre):
    a = ev["args"]
    return ev["op"] == "change_comp" and _is_mux_input(pre, a.get("target"))


def m_del_mux_input_keep_children(ev, pre):
    a = ev["args"]
    return ev["op"] == "del_comp" and a.get("delchilds") is False and _is_mux_input(pre, a.get("target"))


def _src_neg_rs(c):
    try:
        p = c["pay"]["params"]
        return c["cls"] == "Source" and p["vo"]["v"][0] == 1 and p["rs"]["v"][0] == 0 and len(p["rs"]["v"]) > 2
    except Exception:
        return False


def m_negative_source_with_rs(case, st, v=None):
    """F1: the failing row is a Source with vo < 0 and rs > 0 (or, for a system-level clause, the
    system contains one)"""
    comps = st["comps"] if st else []
    if v and v.get("op") and any(c["name"] == v["op"] for c in comps) and not v["clause"].startswith("C03.Sweep") \
            and v["clause"] not in ("C03.NoNaN",):
        if any(c["name"] == v["op"] and _src_neg_rs(c) for c in comps):
            return True
        if v["clause"].startswith("C03."):
            # the diverging iteration of an F1 source (inf / nan that numpy.allclose "accepts") leaves garbage in the rows
            # of everything it supplies as well
            by = {c["name"]: c for c in comps}
            seen, front = set(), [v["op"]]
            while front:
                n = front.pop()
                if n in seen or n not in by:
                    continue
                seen.add(n)
                if _src_neg_rs(by[n]):
                    return True
                front += list(by[n]["par"])
        return False
    return any(_src_neg_rs(c) for c in comps)


def m_unstable_from_initial_guess(case, st, v=None):
    """F19: solve() raised 'Unstable system' in the very first sweeps (driven by the initial current
    guesses: Converter iq, LinReg ig, ILoad ii), although a modest steady state exists"""
    return (case.get("outcome") == "exc" and case.get("exc") == "ValueError"
            # (the ValueError of the solver, whatever its wording, in the first two sweeps - where the sweeps were observed)
            and (0 < int(case.get("sweeps", 0)) <= 2 or not case.get("tap", True))
            and case.get("fresh_outcome", "exc") != "ok")      # (a freshly built system with the same parameters fails as well)


def m_rectifier_rs_list(case, st, v=None):
    """F16: the system contains a MOSFET Rectifier whose rs was given as a list"""
    try:
        exc = case.get("exc") or (case.get("end") or {}).get("exc")
        return exc == "TypeError" and any(
            c["cls"] == "Rectifier" and c["pay"]["params"].get("rs", {}).get("k") == "l" for c in st["comps"])
    except Exception:
        return False


MATCHERS = {k[2:]: v for k, v in globals().items() if k.startswith("m_")}


def match(entry, verdict, ev, pre):
    """does the open finding `entry` explain this failing clause?"""
    if entry.get("status") != "open":
        return False
    if verdict["clause"] not in entry["clauses"]:
        return False
    fn = MATCHERS.get(entry["matcher"])
    try:
        if fn.__code__.co_argcount >= 3:
            return bool(fn(ev, pre, verdict))
        return bool(fn and fn(ev, pre))
    except Exception:
        return False
