"""harvest2.py <worktree> <property> : copy patchA/B.diff, demoA/B.py and notes.json of a mutation sub-agent's worktree
into /verif/seeded/T<nn><A|B>/ (round 2 of the seeded-change campaign)."""
import json
import os
import shutil
import sys

wt, prop = sys.argv[1], sys.argv[2]
prefix = sys.argv[3] if len(sys.argv) > 3 else "T"
rnd = {"T": 2, "U": 3, "V": 4, "W": 5, "X": 6, "Y": 7, "Z": 8}.get(prefix, 2)
notes = {}
try:
    notes = json.load(open(os.path.join(wt, "notes.json")))
except Exception as e:
    print("no notes.json:", e)
for ab in "AB":
    pf, df = os.path.join(wt, "patch%s.diff" % ab), os.path.join(wt, "demo%s.py" % ab)
    if not (os.path.exists(pf) and os.path.exists(df)):
        print("missing", ab)
        continue
    sid = "%s%s%s" % (prefix, prop[1:], ab)
    d = os.path.join("/verif/seeded", sid)
    os.makedirs(d, exist_ok=True)
    shutil.copy(pf, os.path.join(d, "patch.diff"))
    shutil.copy(df, os.path.join(d, "demo.py"))
    n = notes.get(ab, {})
    if not os.path.exists(os.path.join(d, "meta.json")):
        json.dump({"property": prop, "summary": n.get("summary", ""), "needs": n.get("needs", ""),
                   "source": "independent sub-agent (round %d) given only the property text and a scratch worktree" % rnd, "runs": []},
                  open(os.path.join(d, "meta.json"), "w"), indent=1)
    print("harvested", sid)
