"""Numeric systems for the states of spec/MCSkel.tla (every well-formed tree of a few components x liveness pattern x
phase lists): the exhaustive counterpart of the simulated construction histories for C04 / C05 / C07 / C08."""
import warnings

from model import build

_CACHE = {}
SERIES = ["RLoss", "VLoss", "Rectifier", "PSwitch"]
SWITCH = ["Converter", "LinReg", "PSwitch"]
LOADS = ["PLoad", "ILoad", "RLoad"]


def skel_states(ctx, big=False):
    """(states, TLC counts); the invariants of MCSkel are checked by the same run.  big: the 4-component model also in
    the quick tier (two sources + a regulator + a mux need four components)"""
    import tlc
    key = "q" if (ctx.quick and not big) else "t"
    if key not in _CACHE:
        cfg = "MCSkelQ.cfg" if key == "q" else "MCSkel.cfg"
        states, cnt = tlc.run_states("MCSkel.tla", cfg, ctx.work, workers=8)
        cnt["name"] = "discrete skeleton: every tree of <= %d components x liveness x phase lists (%s)" % (3 if key == "q" else 4, cfg)
        _CACHE[key] = (states, cnt)
    return _CACHE[key]


def build_skel(st, gen, rng):
    """the System for one MCSkel state; structural classes are mapped to random concrete kinds"""
    from sysloss.system import System
    S = st["S"]
    names = sorted(S["comps"])
    first_inputs = {S["par"][m][0] for m in names if S["comps"][m]["cls"] == "PMux" and len(S["par"][m]) > 1}
    s = None
    with warnings.catch_warnings():
        warnings.simplefilter("ignore")
        for n in names:
            c = S["comps"][n]
            par = list(S["par"][n])
            if c["cls"] == "Source":
                d = gen.desc("Source", n)
                zero = c["pay"]["params"]["vo"]["v"] in ([0, 0], (0, 0))
                if zero:
                    d["params"]["vo"] = 0.0
                    gen.vest[n] = 0.0
                elif d["params"]["vo"] == 0.0:
                    d["params"]["vo"] = 12.0
                    gen.vest[n] = 12.0
                comp = build(d)
                if s is None:
                    s = System("skel", comp, rail=c["rail"], group=c["group"])
                else:
                    s.add_source(comp, rail=c["rail"], group=c["group"])
                continue
            cls = {"RLoss": rng.choice(SERIES), "Converter": rng.choice(SWITCH), "ILoad": rng.choice(LOADS), "PMux": "PMux"}[c["cls"]]
            d = gen.desc(cls, n, par)
            av = abs(gen.vin_of(par))
            if c["cls"] == "Converter" and n in first_inputs and av > 0 and rng.random() < 0.4:
                # a regulator without any head-room as the FIRST input of the mux: it is on, its supply is live, and yet
                # its output is 0 V - the mux must take its next live input (and be attributed to that input's source)
                import math
                d = gen.desc("LinReg", n, par)
                d["params"]["vo"] = math.copysign(float("%.4g" % (1.6 * av)), d["params"]["vo"])
                d["params"]["vdrop"] = float("%.4g" % (1.2 * av))
                gen.vest[n] = 0.0
            comp = build(d)
            s.add_comp(par if c["cls"] == "PMux" else par[0], comp=comp, rail=c["rail"], group=c["group"])
        # every childless non-load gets a load, so that current flows through every live branch
        kids = {p for n in names for p in S["par"][n]}
        for n in names:
            if S["comps"][n]["cls"] != "ILoad" and n not in kids:
                s.add_comp(n, comp=build(gen.desc(rng.choice(LOADS), "L" + n, [n])))
        s.set_sys_phases({"p": 1.0, "q": 3.0})
        for n in names:
            cf = S["pconf"][n]
            if cf["t"] == "list":
                s.set_comp_phases(n, list(cf["v"]))
    return s


def pick(states, rng, n, want=None):
    """n states, preferring full-size trees; want(S) selects the structures a property is about"""
    pool = [st for st in states if want is None or want(st["S"])]
    if not pool:
        return []
    size = max(len(st["S"]["comps"]) for st in pool)
    full = [st for st in pool if len(st["S"]["comps"]) == size]
    rest = [st for st in pool if len(st["S"]["comps"]) < size]
    k = min(len(full), max(1, int(n * 0.8)))
    out = rng.sample(full, k)
    if rest:
        out += rng.sample(rest, min(len(rest), n - k))
    return out
