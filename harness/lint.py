# poor man's undefined-name check: compile every harness module and list names that are loaded but never bound anywhere
import ast, sys, builtins, glob
for f in sorted(glob.glob('/verif/harness/*.py')):
    tree = ast.parse(open(f).read())
    for fn in [n for n in ast.walk(tree) if isinstance(n, (ast.FunctionDef,))]:
        pass
    bound = set(dir(builtins))
    for n in ast.walk(tree):
        if isinstance(n, (ast.FunctionDef, ast.ClassDef)): bound.add(n.name)
        if isinstance(n, ast.arg): bound.add(n.arg)
        if isinstance(n, ast.Name) and isinstance(n.ctx, (ast.Store, ast.Del)): bound.add(n.id)
        if isinstance(n, (ast.Import, ast.ImportFrom)):
            for a in n.names: bound.add((a.asname or a.name).split('.')[0])
        if isinstance(n, ast.ExceptHandler) and n.name: bound.add(n.name)
    # module-level + any function-level binding counts as bound anywhere (coarse): report per function precisely
    def fbound(fn):
        b=set()
        for n in ast.walk(fn):
            if isinstance(n, ast.arg): b.add(n.arg)
            if isinstance(n, ast.Name) and isinstance(n.ctx,(ast.Store,ast.Del)): b.add(n.id)
            if isinstance(n,(ast.Import,ast.ImportFrom)):
                for a in n.names: b.add((a.asname or a.name).split('.')[0])
            if isinstance(n,(ast.FunctionDef,ast.ClassDef)): b.add(n.name)
            if isinstance(n, ast.ExceptHandler) and n.name: b.add(n.name)
        return b
    modb=set(dir(builtins))
    for n in tree.body:
        for m in ast.walk(n) if not isinstance(n,(ast.FunctionDef,ast.ClassDef)) else [n]:
            if isinstance(m,(ast.FunctionDef,ast.ClassDef)): modb.add(m.name)
            if isinstance(m, ast.Name) and isinstance(m.ctx,ast.Store): modb.add(m.id)
            if isinstance(m,(ast.Import,ast.ImportFrom)):
                for a in m.names: modb.add((a.asname or a.name).split('.')[0])
    def visit(fn, outer):
        b = outer | fbound(fn)
        for n in ast.walk(fn):
            if isinstance(n, ast.Name) and isinstance(n.ctx, ast.Load) and n.id not in b:
                print("%s:%d: undefined name %s in %s" % (f, n.lineno, n.id, fn.name))
    for n in tree.body:
        if isinstance(n, ast.FunctionDef): visit(n, modb)
        if isinstance(n, ast.ClassDef):
            for m in n.body:
                if isinstance(m, ast.FunctionDef): visit(m, modb)
