"""Prints the markdown table of DESIGN.md section 18.1 from seeded/*/meta.json."""
import glob
import json
import os

ROOT = os.path.dirname(os.path.dirname(os.path.abspath(__file__)))
print("| id | property | change (needs) | first run | now: detected by (clauses) |")
print("|---|---|---|---|---|")
for f in sorted(glob.glob(os.path.join(ROOT, "seeded", "*", "meta.json"))):
    m = json.load(open(f))
    sid = f.split(os.sep)[-2]
    runs = m.get("runs", [])
    tgt = m["property"]
    first = "-"
    for r in runs:
        if tgt in r["checks"]:
            first = {0: "missed", 1: "caught", 2: "machinery failure"}.get(r["checks"][tgt]["exit"], "?")
            break
    last = {}
    for r in runs:
        for p, v in r["checks"].items():
            last[p] = v
    det = "; ".join("%s (%s)" % (p, ", ".join(c.split(".", 1)[1] if "." in c else c for c in v["clauses"][:4]))
                    for p, v in sorted(last.items()) if v["exit"] == 1) or "**not detected**"
    print("| %s | %s | %s (%s) | %s | %s |" % (sid, tgt, m.get("summary", "").replace("|", "/")[:160], m.get("needs", "").replace("|", "/")[:120], first, det))
