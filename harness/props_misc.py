"""C20 (PCB trace / plane resistance) and other checks whose cases are enumerated by a TLC model
and validated by their own trace specification."""
import re

import tlc
from check import Result, conclude
from decwire import cell

REGISTRY = {}


def _validate(ctx, res, module, cfg, cases, kind="solve"):
    res.add_traces([{"tid": c["id"], "kind": "solve", "events": [dict(c, st=c.get("st"))]} for c in cases])
    batches = [cases[i::tlc.NCPU] for i in range(tlc.NCPU) if cases[i::tlc.NCPU]]
    verd, stat, states = tlc.validate(module, cfg, batches, ctx.work)
    res.verd += verd
    for k, v in stat.items():
        res.stat[k] = res.stat.get(k, 0) + v
    res.extra["trace_validation_states"] = res.extra.get("trace_validation_states", 0) + states


def _mc(ctx, res, module, cfg, name, workers=tlc.NCPU):
    m = tlc.run_mc(module, cfg, ctx.work, workers=workers)
    m["name"] = name
    res.mc.append(m)
    if not m["ok"]:
        if re.search(r"(Invariant \w+ is violated|property \w+ is violated)", m["out"]):
            res.mc_failures.append(m["out"][m["out"].find("Error:"):][:4000])
        else:
            raise tlc.TLCError(m["out"][-2500:])


# ---------------------------------------------------------------------------------------------
W = [0.127, 1.0, 3.3]
L = [0.5, 15.0, 350.0]
T = [0.035, 0.069596]
RHO = [1.724e-8, 2.65e-8]
TEMP = [20.0, -40.0, 50.0, 125.0]
TCR = [0.0, 0.00386, 0.0043]


def run_c20(ctx):
    from sysloss.utils import trace_res, plane_res
    res = Result()
    rng = ctx.rng
    states, cnt = tlc.run_states("MCUtils.tla", "MCUtils.cfg", ctx.work)
    cnt["name"] = "argument lattice and algebraic theorems of the formulas"
    res.mc.append(cnt)
    if not cnt["ok"]:
        if "is violated" in cnt["out"]:
            res.mc_failures.append(cnt["out"][cnt["out"].find("Error:"):][:3000])
        else:
            raise tlc.TLCError(cnt["out"][-2000:])
    if ctx.quick:
        states = rng.sample(states, min(2500, len(states)))
    cases = []
    for st in states:
        j = (lambda: rng.uniform(0.5, 2.0)) if not ctx.quick or rng.random() < 0.5 else (lambda: 1.0)
        a = dict(w1=W[st["iw1"] - 1] * j(), w2=W[st["iw2"] - 1] * j(), l=L[st["il"] - 1] * j(), t=T[st["it"] - 1] * j(),
                 rho=RHO[st["irho"] - 1] * j(), temp=TEMP[st["itemp"]], tcr=TCR[st["itcr"]])
        kind, rel, f = st["kind"], st["rel"], float(st["fac"]) * rng.choice([1.0, 0.37, 1.5])
        if kind == "plane":
            a["w2"] = a["w1"]

        def call(k, a):
            if k == "trace":
                return trace_res(w1_mm=a["w1"], w2_mm=a["w2"], l_mm=a["l"], t_mm=a["t"], rho=a["rho"], temp=a["temp"], tcr=a["tcr"])
            return plane_res(w=a["w1"], l=a["l"], t_mm=a["t"], rho=a["rho"], temp=a["temp"], tcr=a["tcr"])
        b = dict(a)
        rq = None
        pk = kind
        if rel == "propL":
            b["l"] = a["l"] * f
        elif rel == "propRho":
            b["rho"] = a["rho"] * f
        elif rel == "invT":
            b["t"] = a["t"] * f
        elif rel == "invW":
            b["w1"], b["w2"] = a["w1"] * f, a["w2"] * f
        elif rel == "symm":
            if kind == "plane":
                rel = ""
            b["w1"], b["w2"] = a["w2"], a["w1"]
        elif rel == "plane":
            a["w2"] = a["w1"]
            b = dict(a)
            pk = "plane" if kind == "trace" else "trace"
        elif rel == "affine":
            d = rng.choice([5.0, 17.5, 40.0])
            b["temp"] = a["temp"] + d
            c3 = dict(a, temp=a["temp"] + 2 * d)
            rq = call(kind, c3)
        # products such as l * f are rounded; hand TLC the factor that was actually applied
        if rel in ("propL",):
            f = b["l"] / a["l"]
        elif rel == "propRho":
            f = b["rho"] / a["rho"]
        elif rel == "invT":
            f = b["t"] / a["t"]
        elif rel == "invW":
            f = b["w1"] / a["w1"]
        case = {"id": len(cases), "kind": kind, "rel": rel, "a": {k: cell(v) for k, v in a.items()},
                "w": cell(a["w1"]), "r": cell(call(kind, a)), "rp": cell(call(pk, b)) if rel else cell(0.0),
                "rq": cell(rq if rq is not None else 0.0), "factor": cell(f)}
        case["a"]["w"] = cell(a["w1"])
        cases.append(case)
    _validate(ctx, res, "Utils.tla", "Utils.cfg", cases)
    res.extra["distinct_nontrivial"] = len({(c["kind"], c["rel"], str(c["a"])) for c in cases})
    res.samples = [{"kind": c["kind"], "rel": c["rel"]} for c in cases[:3]]
    res.assumptions = ["results compared to the documented closed form within 1e-12 relative (a handful of float operations)"]
    return conclude("C20", ctx, res, rule="every tuple of the MCUtils argument lattice (with random positive jitter) and every metamorphic partner "
                    "(length, resistivity, thickness, width scaled; w1/w2 swapped; trace vs plane; three equally spaced temperatures)")


REGISTRY["C20"] = {"run": run_c20, "replay": lambda ctx, path: 2}
