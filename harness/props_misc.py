"""C20 (PCB trace / plane resistance) and other checks whose cases are enumerated by a TLC model
and validated by their own trace specification."""
import json
import re
import warnings

import tlc
from check import Result, conclude
from decwire import cell

REGISTRY = {}


def _validate(ctx, res, module, cfg, cases, kind="solve"):
    res.add_traces([{"tid": c["id"], "kind": "solve", "events": [dict(c, st=c.get("st"))]} for c in cases])
    batches = [cases[i::tlc.NCPU] for i in range(tlc.NCPU) if cases[i::tlc.NCPU]]
    verd, stat, states = tlc.validate(module, cfg, batches, ctx.work)
    res.verd += verd
    for k, v in stat.items():
        res.stat[k] = res.stat.get(k, 0) + v
    res.extra["trace_validation_states"] = res.extra.get("trace_validation_states", 0) + states


def _mc(ctx, res, module, cfg, name, workers=tlc.NCPU):
    m = tlc.run_mc(module, cfg, ctx.work, workers=workers)
    m["name"] = name
    res.mc.append(m)
    if not m["ok"]:
        if re.search(r"(Invariant \w+ is violated|property \w+ is violated)", m["out"]):
            res.mc_failures.append(m["out"][m["out"].find("Error:"):][:4000])
        else:
            raise tlc.TLCError(m["out"][-2500:])


# ---------------------------------------------------------------------------------------------
W = [0.127, 1.0, 3.3]
L = [0.5, 15.0, 350.0]
T = [0.035, 0.069596]
RHO = [1.724e-8, 2.65e-8]
TEMP = [20.0, -40.0, 50.0, 125.0]
TCR = [0.0, 0.00386, 0.0043]


def run_c20(ctx):
    from sysloss.utils import trace_res, plane_res
    res = Result()
    rng = ctx.rng
    states, cnt = tlc.run_states("MCUtils.tla", "MCUtils.cfg", ctx.work)
    cnt["name"] = "argument lattice and algebraic theorems of the formulas"
    res.mc.append(cnt)
    if not cnt["ok"]:
        if "is violated" in cnt["out"]:
            res.mc_failures.append(cnt["out"][cnt["out"].find("Error:"):][:3000])
        else:
            raise tlc.TLCError(cnt["out"][-2000:])
    if ctx.quick:
        states = rng.sample(states, min(2500, len(states)))
    cases = []
    for st in states:
        j = (lambda: rng.uniform(0.5, 2.0)) if not ctx.quick or rng.random() < 0.5 else (lambda: 1.0)
        a = dict(w1=W[st["iw1"] - 1] * j(), w2=W[st["iw2"] - 1] * j(), l=L[st["il"] - 1] * j(), t=T[st["it"] - 1] * j(),
                 rho=RHO[st["irho"] - 1] * j(), temp=TEMP[st["itemp"]], tcr=TCR[st["itcr"]])
        kind, rel, f = st["kind"], st["rel"], float(st["fac"]) * rng.choice([1.0, 0.37, 1.5])
        if kind == "plane":
            a["w2"] = a["w1"]

        def call(k, a):
            if k == "trace":
                return trace_res(w1_mm=a["w1"], w2_mm=a["w2"], l_mm=a["l"], t_mm=a["t"], rho=a["rho"], temp=a["temp"], tcr=a["tcr"])
            return plane_res(w=a["w1"], l=a["l"], t_mm=a["t"], rho=a["rho"], temp=a["temp"], tcr=a["tcr"])
        b = dict(a)
        rq = None
        pk = kind
        if rel == "propL":
            b["l"] = a["l"] * f
        elif rel == "propRho":
            b["rho"] = a["rho"] * f
        elif rel == "invT":
            b["t"] = a["t"] * f
        elif rel == "invW":
            b["w1"], b["w2"] = a["w1"] * f, a["w2"] * f
        elif rel == "symm":
            if kind == "plane":
                rel = ""
            b["w1"], b["w2"] = a["w2"], a["w1"]
        elif rel == "plane":
            a["w2"] = a["w1"]
            b = dict(a)
            pk = "plane" if kind == "trace" else "trace"
        elif rel == "affine":
            d = rng.choice([5.0, 17.5, 40.0])
            b["temp"] = a["temp"] + d
            c3 = dict(a, temp=a["temp"] + 2 * d)
            rq = call(kind, c3)
        # products such as l * f are rounded; hand TLC the factor that was actually applied
        if rel in ("propL",):
            f = b["l"] / a["l"]
        elif rel == "propRho":
            f = b["rho"] / a["rho"]
        elif rel == "invT":
            f = b["t"] / a["t"]
        elif rel == "invW":
            f = b["w1"] / a["w1"]
        case = {"id": len(cases), "kind": kind, "rel": rel, "a": {k: cell(v) for k, v in a.items()},
                "w": cell(a["w1"]), "r": cell(call(kind, a)), "rp": cell(call(pk, b)) if rel else cell(0.0),
                "rq": cell(rq if rq is not None else 0.0), "factor": cell(f)}
        case["a"]["w"] = cell(a["w1"])
        cases.append(case)
    _validate(ctx, res, "Utils.tla", "Utils.cfg", cases)
    res.extra["distinct_nontrivial"] = len({(c["kind"], c["rel"], str(c["a"])) for c in cases})
    res.samples = [{"kind": c["kind"], "rel": c["rel"]} for c in cases[:3]]
    res.assumptions = ["results compared to the documented closed form within 1e-12 relative (a handful of float operations)"]
    return conclude("C20", ctx, res, rule="every tuple of the MCUtils argument lattice (with random positive jitter) and every metamorphic partner "
                    "(length, resistivity, thickness, width scaled; w1/w2 swapped; trace vs plane; three equally spaced temperatures)")


REGISTRY["C20"] = {"run": run_c20, "replay": lambda ctx, path: 2}


# ---------------------------------------------------------------------------------------------
def run_c13(ctx):
    import shutil
    import tempfile
    import drv_toml
    res = Result()
    rng = ctx.rng
    states, cnt = tlc.run_states("MCToml.tla", "MCToml.cfg", ctx.work)
    cnt["name"] = "TOML loader cases: kind x form of every schema key x limits table"
    res.mc.append(cnt)
    if not cnt["ok"]:
        if "is violated" in cnt["out"]:
            res.mc_failures.append(cnt["out"][cnt["out"].find("Error:"):][:3000])
        else:
            raise tlc.TLCError(cnt["out"][-2000:])
    total = len(states)
    if ctx.quick:
        by = {}
        for st in states:
            by.setdefault(st["cl"], []).append(st)
        states = []
        for cl, quota in (("Ctor", 1500), ("KeyError", 500), ("ValueError", 650), ("CtorOrValueError", 50), ("Either", 300)):
            pool = by.get(cl, [])
            states += rng.sample(pool, min(quota, len(pool)))
    tmp = tempfile.mkdtemp(prefix="sl_toml_")
    try:
        ref0 = drv_toml.reference_digest()
        cases = [drv_toml.run_case(st, i, rng, tmp) for i, st in enumerate(states)]
        for c in cases:
            c["ref0"] = ref0
    finally:
        shutil.rmtree(tmp, ignore_errors=True)
    slim = [{k: v for k, v in c.items() if k != "toml"} for c in cases]
    res.add_traces([{"tid": c["id"], "kind": "solve", "events": [dict(c, st=None)]} for c in cases])
    batches = [slim[i::tlc.NCPU] for i in range(tlc.NCPU) if slim[i::tlc.NCPU]]
    verd, stat, tstates = tlc.validate("TraceToml.tla", "TraceToml.cfg", batches, ctx.work)
    res.verd, res.stat = verd, stat
    res.extra["trace_validation_states"] = tstates
    res.extra["cases_in_model"] = total
    res.extra["exhaustive"] = len(states) == total
    res.extra["distinct_nontrivial"] = len({(c["kind"], tuple(c["forms"]), c["lim"]) for c in cases})
    res.extra["outcomes"] = {}
    for c in cases:
        k = "%s/%s" % (c["ff"], c["ct"])
        res.extra["outcomes"][k] = res.extra["outcomes"].get(k, 0) + 1
    res.samples = [{"kind": c["kind"], "forms": c["forms"], "toml": c["toml"], "from_file": c["ff"], "ctor": c["ct"]} for c in cases[:3]]
    res.assumptions = ["TOML text written by the harness' own emitter (tables as inline tables); LinReg: well-typed forms only (its loader has no type gate)"]
    return conclude("C13", ctx, res, rule="every state of MCToml.tla (kind x {absent,int,float,str,bool,list,table} per schema key x limits table present/absent; "
                    "quick: a random sample) is written as a TOML file and loaded; the outcome class and, when a component is built, its payload, params()/limits() rows "
                    "and solved probe are compared with the constructor call on the same values")


REGISTRY["C13"] = {"run": run_c13, "replay": lambda ctx, path: 2}


# ---------------------------------------------------------------------------------------------
def run_c11(ctx):
    import copy
    import sysloss.components as C
    import drv_ctor
    import drv_solve
    from props_solve import validate_cases
    from props_struct import validate_twins
    res = Result()
    rng = ctx.rng
    states, cnt = tlc.run_states("MCCtor.tla", "MCCtor.cfg", ctx.work)
    cnt["name"] = "constructor cases: kind x argument forms (one focus parameter over all forms)"
    res.mc.append(cnt)
    if not cnt["ok"]:
        if "is violated" in cnt["out"]:
            res.mc_failures.append(cnt["out"][cnt["out"].find("Error:"):][:3000])
        else:
            raise tlc.TLCError(cnt["out"][-2000:])
    from props_solve import mc_laws
    mc_laws(ctx, res)      # "consequently no accepted component can show negative loss, efficiency above 100 %, passive gain"
    cases, solves, twins = [], [], []
    n_probe = 0
    probe_every = 9 if ctx.quick else 1
    for i, st in enumerate(states):
        case, comp = drv_ctor.run_case(st, i)
        cases.append(case)
        signed = any(f in ("neg", "negsmall", "list_neg", "t_negentry", "t1_negentry", "t1_neg", "t2_neg", "t2_negaxis") for f in st["a"].values())
        signed_table = any(f in ("t_negentry", "t1_negentry", "t1_neg", "t2_neg", "t2_negaxis") for f in st["a"].values())
        if comp is None or ((i % probe_every) and not (signed and i % 3 == 0) and not signed_table):
            continue
        n_probe += 1
        for vs in ((12.0,) if ctx.quick else (12.0, -9.0)):
            try:
                s = drv_ctor.probe_system(copy.deepcopy(comp), st["kind"], vs)
            except Exception:
                continue
            sc = drv_solve.solve_case(s, 10 ** 6 + len(solves))
            sc["ctor_case"] = i
            solves.append(sc)
            if signed and sc["outcome"] == "ok":
                try:
                    mag = getattr(C, st["kind"])("X", **drv_ctor.magnitudes(case["kw"]))
                    s2 = drv_ctor.probe_system(mag, st["kind"], vs)
                    t2 = drv_solve.solve_case(s2, 0)
                    twins.append({"id": 2 * 10 ** 6 + len(twins), "clause": "C11.Normalises", "kind": "table", "exact": True,
                                  "what": "%s %s" % (st["kind"], {k: v for k, v in st["a"].items() if v != "absent"}),
                                  "a": sc["table"], "b": t2["table"], "outcome": "", "exc": "", "st": sc["st"]})
                except Exception:
                    pass
    # second pass: what a constructor accepts is a function of its arguments, not of what was constructed before in the
    # process - every case with a tabulated argument is executed once more, now in reverse order (the tables of all
    # parameters are made of the same numbers, so a table that is legal as one quantity and illegal as another has been
    # seen as both by then)
    n_first = len(cases)
    for i in range(n_first - 1, -1, -1):
        if any(str(f).startswith("t") and f != "true" for f in states[i]["a"].values()):
            case, _ = drv_ctor.run_case(states[i], len(cases))
            case["second_pass_of"] = i
            cases.append(case)
    res.extra["second_pass_cases"] = len(cases) - n_first
    slim = [{k: v for k, v in c.items() if k != "kw"} for c in cases]
    res.add_traces([{"tid": c["id"], "kind": "solve", "events": [dict(c, st=None, kw=repr(c["kw"])[:300])]} for c in cases])
    verd, stat, tstates = tlc.validate("TraceCtor.tla", "TraceCtor.cfg", [slim[i::tlc.NCPU] for i in range(tlc.NCPU) if slim[i::tlc.NCPU]], ctx.work)
    res.verd, res.stat = verd, stat
    res.extra["trace_validation_states"] = tstates
    validate_cases(ctx, res, solves)
    if twins:
        validate_twins(ctx, res, twins)
    res.extra["constructor_cases"] = len(cases)
    res.extra["exhaustive"] = True
    res.extra["probes_solved"] = len(solves)
    res.extra["normalisation_twins"] = len(twins)
    res.extra["outcomes"] = {}
    for c in cases:
        res.extra["outcomes"][c["outcome"]] = res.extra["outcomes"].get(c["outcome"], 0) + 1
    res.extra["distinct_nontrivial"] = len(cases)
    res.samples = [{"kind": c["kind"], "forms": {k: v for k, v in c["a"].items() if v != "absent"}, "outcome": c["outcome"]} for c in cases[:4]]
    res.assumptions = ["outside the lattice: scalar strings (except Rectifier rs), a limits argument that is not a dict, 2-D tables with a single io column",
                       "that params() displays a raw negative ig is recorded, not judged; normalisation is judged on behaviour (identical probe tables)"]
    return conclude("C11", ctx, res, rule="every state of MCCtor.tla is executed against the real constructor (exception class, stored magnitudes); accepted components are put "
                    "into Source - X - loads probes (quick: every 9th) whose solved rows must show no negative loss, efficiency <= 100 %, no passive gain; arguments given with "
                    "negative signs must behave exactly like their magnitudes")


REGISTRY["C11"] = {"run": run_c11, "replay": lambda ctx, path: 2}


# ---------------------------------------------------------------------------------------------
# C10: tabulated parameters.  The lattice states of MCInterp.tla (grid, values, query point) are
# mapped affinely to physical tables and operating points of Source - X - ILoad probes.
C10_TARGETS = ["Converter.eff", "VLoss.vdrop", "LinReg.ig", "PSwitch.ig", "PMux.ig", "Rectifier.vdrop", "Rectifier.ig"]


def _c10_probe(st, target, sign, rng):
    import warnings
    import sysloss.components as C
    from sysloss.system import System
    kind, key = target.split(".")
    # a quarter of the probes use tables whose io axis is written with Python ints (1, 2, 3, ... A) next to a
    # fractional vi axis, or whose vi axis is written with ints: the number type of an axis must not matter
    ints = rng.choice(["", "", "", "io", "vi"]) if kind not in ("LinReg",) else ""
    io_of = (lambda x: 1 + int(x)) if ints == "io" else (lambda x: 0.02 + 0.11 * x)
    vi_of = (lambda y: 2 + 3 * int(y)) if ints == "vi" else (lambda y: 2.0 + 3.5 * y)
    xs, ys, f = st["xs"], st["ys"], st["f"]
    lo, hi = {"eff": (0.55, 0.9), "vdrop": (0.1, 0.45), "ig": (2e-4, 3e-3)}[key]
    fmax = max(max(r) for r in f) or 1
    tab = {"vi": [vi_of(y) for y in ys], "io": [io_of(x) for x in xs],
           key: [[lo + (hi - lo) * v / max(fmax, 1) for v in row] for row in f]}
    const = lo + (hi - lo) * f[0][0] / max(fmax, 1)
    I = (1 + st["qx"] / 2.0) if ints == "io" else io_of(st["qx"] / 2.0)
    V = (2 + 3 * st["qy"] / 2.0) if ints == "vi" else vi_of(st["qy"] / 2.0)
    if ints == "io":
        lo, hi = {"eff": (0.7, 0.95), "vdrop": (0.05, 0.25), "ig": (2e-4, 3e-3)}[key]
        tab[key] = [[lo + (hi - lo) * v / max(fmax, 1) for v in row] for row in f]
        const = lo + (hi - lo) * f[0][0] / max(fmax, 1)
        V = V + 6.0 if len(ys) == 1 else V
    noload = False
    if I <= 1e-4 and key == "ig" and V > 1.2 and kind != "Rectifier":
        noload, I = True, 0.0            # X is a leaf: its ground current is the table value at (0, Vin)
    elif I <= 1e-4 or V <= 1.2:
        return None
    V = sign * V
    scale = 1.0
    # (not on a no-load probe: there the ground current is the component's own current iterate, and a change of a few nA is
    #  below the absolute term 1e-8 A of the solver's stopping rule - it returns its start value; false alarm of the
    #  thorough tier, seed 0)
    if key == "ig" and not noload and rng.random() < 0.25:
        # nano-ampere ground currents: the rows of the table differ by less than 1e-8 A, and still differ
        scale = rng.choice([1e-5, 1e-6])      # (row differences of ~3e-8 A and of ~3e-9 A: around and below numpy's default atol)
        tab[key] = [[v * scale for v in row] for row in tab[key]]
        const = const * scale
    # the sign of tabulated coordinates is ignored and the vi rows may come in any order (the table is a scatter)
    form = rng.choice(["plain", "plain", "negaxis", "descending"]) if len(ys) > 1 else "plain"
    if form == "negaxis":
        tab["vi"] = [-v for v in tab["vi"]]
    elif form == "descending":
        tab["vi"] = tab["vi"][::-1]
        tab[key] = tab[key][::-1]
    if form != "negaxis" and len(ys) == 2 and not ints and rng.random() < 0.35:
        # a third vi row beyond the grid, the rows given in an order that is neither rising nor falling
        y3 = vi_of(ys[-1] + 1)
        flat = len({v for r in f for v in r}) == 1        # (a table of equal entries stays one: it is compared with the constant)
        row3 = [const for _ in xs] if flat else [lo + (hi - lo) * rng.random() for _ in xs]
        vis = [vi_of(y) for y in ys] + [y3]
        rows = [list(r) for r in tab[key]] + [[v if flat else v * scale for v in row3]]
        order = rng.choice([[1, 2, 0], [2, 0, 1], [1, 0, 2], [0, 2, 1]])
        tab["vi"] = [vis[k] for k in order]
        tab[key] = [rows[k] for k in order]
    # a mux is also probed through its second input (the first one dead)
    second = kind == "PMux" and rng.random() < 0.5

    def make(p):
        if kind == "Converter":
            return C.Converter("X", vo=1.8, eff=p, iq=1e-4)
        if kind == "VLoss":
            return C.VLoss("X", vdrop=p)
        if kind == "LinReg":
            return C.LinReg("X", vo=1.0 * (1 if sign > 0 else -1), vdrop=0.1, ig=p)
        if kind == "PSwitch":
            return C.PSwitch("X", rs=0.05 if ints != "io" else 0.01, ig=p)
        if kind == "PMux":
            return C.PMux("X", rs=0.05 if ints != "io" else 0.01, ig=p)
        if key == "vdrop":
            return C.Rectifier("X", vdrop=p)
        return C.Rectifier("X", rs=0.02, ig=p, iq=1e-5)

    def system(p):
        with warnings.catch_warnings():
            warnings.simplefilter("ignore")
            if second:
                s = System("probe", C.Source("S0", vo=0.0))
                s.add_source(C.Source("S", vo=V))
                s.add_comp(["S0", "S"], comp=make(p))
            else:
                s = System("probe", C.Source("S", vo=V))
                s.add_comp("S", comp=make(p))
            if not noload:
                s.add_comp("X", comp=C.ILoad("L", ii=I))
        return s
    return system(tab), (system(const) if len({v for r in f for v in r}) == 1 else None)


def run_c10(ctx):
    import drv_solve
    from props_solve import validate_cases
    from props_struct import validate_twins
    res = Result()
    rng = ctx.rng
    cfg = "MCInterpQ.cfg" if ctx.quick else "MCInterp.cfg"
    states, cnt = tlc.run_states("MCInterp.tla", cfg, ctx.work)
    cnt["name"] = "table semantics on integer grids x half-integer query lattice"
    res.mc.append(cnt)
    if not cnt["ok"]:
        if "is violated" in cnt["out"]:
            res.mc_failures.append(cnt["out"][cnt["out"].find("Error:"):][:3000])
        else:
            raise tlc.TLCError(cnt["out"][-2000:])
    states = [s for s in states if s["qx"] != -99 and len(s["xs"]) >= 2]
    states.sort(key=lambda s: json.dumps(s, sort_keys=True))     # (TLC's workers emit them in a varying order)
    n = 700 if ctx.quick else 20000
    if len(states) > n:
        states = rng.sample(states, n)
    cases, twins, classes = [], [], {}
    for st in states:
        target = rng.choice(C10_TARGETS)
        sign = -1 if rng.random() < 0.25 else 1
        pr = _c10_probe(st, target, sign, rng)
        if pr is None:
            continue
        s, sconst = pr
        c = drv_solve.solve_case(s, len(cases))
        c["args"]["probe"] = True
        c["target"] = target
        cases.append(c)
        onx = any(2 * x == st["qx"] for x in st["xs"])
        ony = any(2 * y == st["qy"] for y in st["ys"])
        inx = 2 * st["xs"][0] <= st["qx"] <= 2 * st["xs"][-1]
        iny = 2 * st["ys"][0] <= st["qy"] <= 2 * st["ys"][-1]
        cl = ("grid" if onx and ony else "line" if (onx or ony) and inx and iny else "interior" if inx and iny else "outside") + \
             ("/2d" if len(st["ys"]) > 1 else "/1d")
        classes[cl] = classes.get(cl, 0) + 1
        if sconst is not None:
            c2 = drv_solve.solve_case(sconst, 0)
            # the two systems differ in the parameter form only: compare the tables cell by cell
            twins.append({"id": 10 ** 6 + len(twins), "clause": "C10.ConstTable", "kind": "table", "exact": False,
                          "what": target, "a": c["table"], "b": c2["table"], "outcome": "", "exc": "", "st": c["st"]})
    validate_cases(ctx, res, cases)
    if twins:
        validate_twins(ctx, res, twins)
    res.extra["probes"] = len(cases)
    res.extra["query_classes"] = classes
    res.extra["const_table_twins"] = len(twins)
    res.extra["distinct_nontrivial"] = len(cases)
    res.samples = [{"target": c["target"], "outcome": c["outcome"],
                    "table": [x for x in c["st"]["comps"] if x["name"] == "X"][0]["pay"]["params"]} for c in cases[:2]]
    res.assumptions = ["integer lattice states are mapped affinely to physical axes (io = 0.02 + 0.11 x, vi = 2 + 3.5 y), which preserves grid points, grid lines, cells and the outside directions",
                       "inside a 2-D cell either Delaunay diagonal is admissible"]
    return conclude("C10", ctx, res, rule="states of MCInterp.tla (grid shape 2-3 x 1-2, 0/1 values, query on / between / outside the grid) instantiated as "
                    "Source - X - ILoad probes for eff / vdrop / ig tables on the six kinds, both supply polarities; the solved row of X must follow its law with an "
                    "admissible table value; tables of equal entries must solve like the constant")


REGISTRY["C10"] = {"run": run_c10, "replay": lambda ctx, path: 2}


# ---------------------------------------------------------------------------------------------
def run_c19(ctx):
    import shutil
    import tempfile
    import drv_diag
    import drv_solve
    import gen
    from props_solve import build_behaviours, struct_digest
    from project import project
    res = Result()
    rng = ctx.rng
    n_sys = 60 if ctx.quick else 1000
    behs = build_behaviours(ctx, n_sys + 5, depths=(4, 7, 10, 13))
    tmp = tempfile.mkdtemp(prefix="sl_diag_")
    cases, structs = [], set()
    try:
        for st in behs[:n_sys]:
            s = drv_solve.build_system(st, gen.Gen(rng, neg=0.1, tables=0.1), rng)
            pj = project(s)
            structs.add(struct_digest(pj))
            for heat in (False, True):
                for _ in range(1 if ctx.quick else 2):
                    conf = drv_diag.random_conf(rng, pj) if rng.random() < 0.7 else None
                    cases.append(drv_diag.render_case(s, len(cases), heat, rng.random() < 0.7, conf, tmp))
        # nano-power systems: every loss is tiny (pW ... nW) but not zero - colours and labels follow them all the same
        import sysloss.components as C
        from sysloss.system import System
        for k in range(3 if ctx.quick else 30):
            with warnings.catch_warnings():
                warnings.simplefilter("ignore")
                s = System("nano", C.Source("S", vo=rng.choice([0.9, 1.8, 3.0])))
                s.add_comp("S", comp=C.RLoss("R1", rs=rng.choice([1.0, 10.0, 47.0])))
                s.add_comp("R1", comp=C.ILoad("L1", ii=rng.choice([1e-6, 3e-6]), loss=False))
                s.add_comp("S", comp=C.RLoss("R2", rs=rng.choice([2.2, 22.0])))
                s.add_comp("R2", comp=C.LinReg("LR", vo=0.5, vdrop=0.05, ig=rng.choice([1e-9, 3e-9])))
                s.add_comp("LR", comp=C.ILoad("L2", ii=rng.choice([2e-9, 5e-9])))
            pj = project(s)
            structs.add(struct_digest(pj))
            cases.append(drv_diag.render_case(s, len(cases), True, False, None, tmp))
        # systems left behind by edit histories (renames, replacements, deletions with and without children, re-adding:
        # freed node indices, re-ordered registries) - the diagram must show the final structure, not the history
        import drv_edit
        hnum, hdepth = (60, 14) if ctx.quick else (800, 30)
        hb, _ = tlc.run_sim("SimEdit.tla", "SimEdit.cfg", ctx.work, num=hnum, depth=hdepth, seed=ctx.seed + 19)
        mb, _ = tlc.run_sim("SimEdit.tla", "SimMux.cfg", ctx.work, num=hnum // 3, depth=hdepth, seed=ctx.seed + 20)
        rb, _ = tlc.run_sim("SimEdit.tla", "SimReuse.cfg", ctx.work, num=hnum // 3, depth=13, seed=ctx.seed + 21)
        mb = mb + rb
        n_hist = 0
        import scenarios
        hand = [x[1] for x in scenarios.build_histories() if not isinstance(x[1], Exception)]
        for states in hand + hb + mb:
            if isinstance(states, list):
                s = drv_edit.new_system()
                for st in states:
                    drv_edit.do_call(s, st["act"]["op"], st["act"]["a"])
            else:
                s = states        # a hand-built edit history (harness/scenarios.py)
            pj = project(s)
            structs.add(struct_digest(pj))
            n_hist += 1
            for heat in (False, True):
                conf = drv_diag.random_conf(rng, pj) if rng.random() < 0.5 else None
                cases.append(drv_diag.render_case(s, len(cases), heat, rng.random() < 0.7, conf, tmp))
    finally:
        shutil.rmtree(tmp, ignore_errors=True)
    _validate(ctx, res, "TraceDiag.tla", "TraceDiag.cfg", cases)
    res.extra["renderings"] = len(cases)
    res.extra["history_built_systems"] = n_hist
    res.extra["distinct_nontrivial"] = len(structs)
    res.extra["outcomes"] = {}
    for c in cases:
        k = "%s:%s" % ("heat" if c["heat"] else "plain", c["outcome"])
        res.extra["outcomes"][k] = res.extra["outcomes"].get(k, 0) + 1
    res.samples = [{"heat": c["heat"], "group": c["group"], "nodes": [n["name"] for n in c["nodes"]], "clusters": [k["label"] for k in c["clusters"]]}
                   for c in cases[:3]]
    res.assumptions = ["diagrams are rendered to the dot source (fname=*.raw) and parsed back with pydot; graphviz layout is not exercised",
                       "label value within 0.5 % of the duration-weighted loss = three significant digits"]
    return conclude("C19", ctx, res, rule="plain and heat diagrams of generated systems (groups, several sources, mux, phases), grouping on/off, default and random "
                    "configurations (default / kind / name / cluster / edge overrides, three rank directions): node, edge and cluster sets, attribute precedence, "
                    "unchanged caller configuration, heat labels, colour order, extremes and legend")


REGISTRY["C19"] = {"run": run_c19, "replay": lambda ctx, path: 2}
