"""batt_life() under observation: scripted / numeric battery models behind logging callbacks (the observable steps of
the run: probe, deplete), with the battery's reference current for every depletion obtained by the harness itself
(solve() of a system rebuilt from the projected state, battery at the state the model returned last); a temporary
wrapper of System._solve additionally records the solver calls between two callbacks (internal steps: phase and the
battery Source's parameters at that moment); optional fault injection at the k-th probe / deplete / solver call."""
from decwire import excname
import copy
import warnings

from decwire import cell
from project import project
from rebuild import rebuild


class ModelFailure(RuntimeError):
    pass


class ModelAbort(BaseException):
    """a callback that ends like KeyboardInterrupt / SystemExit: not an Exception, but raised by the callback all the same"""
    pass


def numeric_model(kind, cap0, v0, r0, rng):
    """returns (pfunc, dfunc): capacity in Ah drains with the current; the voltage sags"""
    st = {"cap": cap0}

    def state():
        frac = max(st["cap"], 0.0) / cap0
        if kind == "const":
            return (st["cap"], v0, r0)
        if kind == "sag":
            return (st["cap"], v0 * (0.75 + 0.25 * frac), r0)
        if kind == "plateau":
            # flat discharge curve: the SAME voltage in every state, the impedance alone rises as the battery empties
            return (st["cap"], v0, max(r0, 0.05) * (1.0 + 4.0 * (1 - frac)))
        return (st["cap"], v0 * (0.8 + 0.2 * frac), r0 * (1.0 + 2.0 * (1 - frac)))

    def pfunc():
        return state()

    def dfunc(dt, i):
        st["cap"] -= i * dt / 3600.0
        return state()
    return pfunc, dfunc


def scripted_model(states):
    """states: list of (cap, volt, rs); probe returns the first, every deplete the next"""
    it = {"k": 0}

    def pfunc():
        return states[0]

    def dfunc(dt, i):
        it["k"] = min(it["k"] + 1, len(states) - 1)
        return states[it["k"]]
    return pfunc, dfunc


def run_batt(s, battery, cutoff, pfunc, dfunc, cid, fail_at=None, ref=True, max_steps=2500, ref_every=1):
    """fail_at = ("probe"|"deplete"|"solve", k): the k-th such call raises"""
    from sysloss.system import System
    g = s._g
    # the battery is a component name or a rail name; resolved HERE from the registries (not with the library's own helper)
    idx = -1
    if isinstance(battery, str) and battery != "":
        if battery in g.attrs["nodes"]:
            idx = g.attrs["nodes"][battery]
        else:
            owners = [n for n, r in g.attrs["rails"].items() if r == battery]
            if owners:
                idx = g.attrs["nodes"][owners[0]]
    known = idx != -1
    is_source = known and type(g[idx]).__name__ == "Source"
    ph = [{"name": k, "dur": cell(v)} for k, v in g.attrs["phases"].items()]
    case = {"id": cid, "battery": str(battery), "known": bool(known), "is_source": bool(is_source), "cutoff": cell(cutoff),
            "phases": ph, "events": [], "outcome": "ok", "exc": "", "log": [], "st": project(s),
            "src0": [cell(g[idx]._params["vo"]), cell(g[idx]._params["rs"])] if is_source else [],
            "src1": [], "solve_cases": []}
    ev = case["events"]
    case["tail"] = []          # solver calls after the last callback (e.g. the one that raised)
    cnt = {"probe": 0, "deplete": 0, "solve": 0}
    pending = []               # solver calls observed since the last callback (internal steps: 0, 1 or more per depletion)
    last = {"ret": None}       # the battery state the model returned last = its present state
    phnames = list(g.attrs["phases"].keys())
    bname = g[idx]._params["name"] if is_source else None

    def boom(kind):
        cnt[kind] += 1
        if fail_at and fail_at[0] == kind and fail_at[1] == cnt[kind]:
            if len(fail_at) > 2 and fail_at[2] == "abort":
                raise ModelAbort("injected abort at %s #%d" % (kind, cnt[kind]))
            raise ModelFailure("injected failure at %s #%d" % (kind, cnt[kind]))

    def P():
        e = {"k": "probe", "raised": True, "ret": [], "solves": []}
        ev.append(e)
        boom("probe")
        r = pfunc()
        e["ret"], e["raised"] = [cell(x) for x in r], False
        last["ret"] = r
        return r

    def reference(m):
        """the battery's Iout in solve(phase of step m) of a system built from scratch from the projected state, with the
        battery Source at the battery's PRESENT state (the state the model returned last) - computed by the harness
        from the public callbacks alone, independent of how (and whether) the library calls its solver"""
        phase = phnames[(m - 1) % len(phnames)] if phnames else ""
        st = project(s)
        for c in st["comps"]:
            if c["name"] == bname:
                c["pay"]["params"]["vo"] = {"k": "c", "v": cell(last["ret"][1])}
                c["pay"]["params"]["rs"] = {"k": "c", "v": cell(last["ret"][2])}
        c2 = rebuild(st)
        with warnings.catch_warnings():
            warnings.simplefilter("ignore")
            df = c2.solve(vtol=1e-5, itol=1e-6, phase=phase)
        rows = df[df["Component"] == bname]
        return rows["Iout (A)"].values[0]

    def D(dt, i):
        e = {"k": "deplete", "raised": True, "dt": cell(dt), "i": cell(i), "ret": [], "solves": list(pending),
             "has_ref": False, "iref": cell(0.0)}
        del pending[:]
        ev.append(e)
        if cnt["deplete"] >= max_steps:
            raise ModelFailure("step budget exhausted")
        boom("deplete")
        if ref and is_source and last["ret"] is not None and (cnt["deplete"] <= 3 or cnt["deplete"] % ref_every == 0):
            busy["ref"] = True
            try:
                e["iref"], e["has_ref"] = cell(reference(cnt["deplete"])), True
            except Exception:
                pass
            finally:
                busy["ref"] = False
        r = dfunc(dt, i)
        e["ret"], e["raised"] = [cell(x) for x in r], False
        last["ret"] = r
        return r

    orig_solve = getattr(System, "_solve", None)
    busy = {"ref": False}

    def tapped(self, *a, **kw):
        if busy["ref"] or self is not s:
            return orig_solve(self, *a, **kw)
        phase = kw.get("phase", a[4] if len(a) > 4 else "")
        e = {"k": "solve", "raised": True, "phase": phase, "vo": cell(s._g[idx]._params["vo"]), "rs": cell(s._g[idx]._params["rs"])}
        pending.append(e)
        boom("solve")
        r = orig_solve(self, *a, **kw)
        e["raised"] = False
        return r

    returned = None
    if orig_solve is not None:       # (observation of the internal solver calls is optional: the clauses are about the callbacks)
        System._solve = tapped
    try:
        with warnings.catch_warnings():
            warnings.simplefilter("ignore")
            df = s.batt_life(battery, cutoff=cutoff, pfunc=P, dfunc=D)
        returned = df
    except BaseException as e:
        if isinstance(e, (KeyboardInterrupt, SystemExit)):
            raise
        case["outcome"], case["exc"] = "exc", excname(e)
    finally:
        if orig_solve is not None:
            System._solve = orig_solve
    case["tail"] = list(pending)
    if case["outcome"] == "ok":
        # (reading the returned log is the harness' business: an error here is a machinery failure, not "batt_life raised")
        cols = {}
        for want in ("Time", "Capacity", "Voltage", "Resistance"):
            hit = [c for c in returned.columns if str(c).startswith(want)]
            if len(hit) != 1:
                from drv_solve import HarnessError
                raise HarnessError("batt_life log: no unique column for %r in %r" % (want, list(returned.columns)))
            cols[want] = hit[0]
        case["log"] = [[cell(x) for x in row] for row in
                       returned[[cols["Time"], cols["Capacity"], cols["Voltage"], cols["Resistance"]]].itertuples(index=False, name=None)]
    if is_source:
        case["src1"] = [cell(s._g[idx]._params["vo"]), cell(s._g[idx]._params["rs"])]
    return case
