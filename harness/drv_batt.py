"""batt_life() under observation: scripted / numeric battery models behind logging callbacks, a
temporary wrapper of System._solve that records every solver call of the run (phase, the battery
Source's parameters at that moment, and the battery's Iout in a reference solve() of a deep copy),
optional fault injection at the k-th probe / deplete / solve."""
import copy
import warnings

from decwire import cell
from project import project
from rebuild import rebuild


class ModelFailure(RuntimeError):
    pass


class ModelAbort(BaseException):
    """a callback that ends like KeyboardInterrupt / SystemExit: not an Exception, but raised by the callback all the same"""
    pass


def numeric_model(kind, cap0, v0, r0, rng):
    """returns (pfunc, dfunc): capacity in Ah drains with the current; the voltage sags"""
    st = {"cap": cap0}

    def state():
        frac = max(st["cap"], 0.0) / cap0
        if kind == "const":
            return (st["cap"], v0, r0)
        if kind == "sag":
            return (st["cap"], v0 * (0.75 + 0.25 * frac), r0)
        return (st["cap"], v0 * (0.8 + 0.2 * frac), r0 * (1.0 + 2.0 * (1 - frac)))

    def pfunc():
        return state()

    def dfunc(dt, i):
        st["cap"] -= i * dt / 3600.0
        return state()
    return pfunc, dfunc


def scripted_model(states):
    """states: list of (cap, volt, rs); probe returns the first, every deplete the next"""
    it = {"k": 0}

    def pfunc():
        return states[0]

    def dfunc(dt, i):
        it["k"] = min(it["k"] + 1, len(states) - 1)
        return states[it["k"]]
    return pfunc, dfunc


def run_batt(s, battery, cutoff, pfunc, dfunc, cid, fail_at=None, ref=True, max_steps=2500, ref_every=1):
    """fail_at = ("probe"|"deplete"|"solve", k): the k-th such call raises"""
    from sysloss.system import System
    g = s._g
    # the battery is a component name or a rail name; resolved HERE from the registries (not with the library's own helper)
    idx = -1
    if isinstance(battery, str) and battery != "":
        if battery in g.attrs["nodes"]:
            idx = g.attrs["nodes"][battery]
        else:
            owners = [n for n, r in g.attrs["rails"].items() if r == battery]
            if owners:
                idx = g.attrs["nodes"][owners[0]]
    known = idx != -1
    is_source = known and type(g[idx]).__name__ == "Source"
    ph = [{"name": k, "dur": cell(v)} for k, v in g.attrs["phases"].items()]
    case = {"id": cid, "battery": str(battery), "known": bool(known), "is_source": bool(is_source), "cutoff": cell(cutoff),
            "phases": ph, "events": [], "outcome": "ok", "exc": "", "log": [], "st": project(s),
            "src0": [cell(g[idx]._params["vo"]), cell(g[idx]._params["rs"])] if is_source else [],
            "src1": [], "solve_cases": []}
    ev = case["events"]
    cnt = {"probe": 0, "deplete": 0, "solve": 0}

    def boom(kind):
        cnt[kind] += 1
        if fail_at and fail_at[0] == kind and fail_at[1] == cnt[kind]:
            if len(fail_at) > 2 and fail_at[2] == "abort":
                raise ModelAbort("injected abort at %s #%d" % (kind, cnt[kind]))
            raise ModelFailure("injected failure at %s #%d" % (kind, cnt[kind]))

    def P():
        e = {"k": "probe", "raised": True, "ret": []}
        ev.append(e)
        boom("probe")
        r = pfunc()
        e["ret"], e["raised"] = [cell(x) for x in r], False
        return r

    def D(dt, i):
        e = {"k": "deplete", "raised": True, "dt": cell(dt), "i": cell(i), "ret": []}
        ev.append(e)
        if cnt["deplete"] >= max_steps:
            raise ModelFailure("step budget exhausted")
        boom("deplete")
        r = dfunc(dt, i)
        e["ret"], e["raised"] = [cell(x) for x in r], False
        return r

    orig_solve = System._solve
    busy = {"ref": False}

    def tapped(self, *a, **kw):
        if busy["ref"] or self is not s:
            return orig_solve(self, *a, **kw)
        phase = kw.get("phase", a[4] if len(a) > 4 else "")
        e = {"k": "solve", "raised": True, "phase": phase, "vo": cell(g[idx]._params["vo"]), "rs": cell(g[idx]._params["rs"]),
             "has_ref": False, "iref": cell(0.0)}
        ev.append(e)
        boom("solve")
        if ref and (cnt["solve"] <= 3 or cnt["solve"] % ref_every == 0):
            busy["ref"] = True
            try:
                # a system built from scratch from the projected state (the battery Source carries the values the
                # loop has just written): independent of anything the live object may have cached
                try:
                    c2 = rebuild(project(s))
                except Exception:
                    c2 = copy.deepcopy(s)
                with warnings.catch_warnings():
                    warnings.simplefilter("ignore")
                    df = c2.solve(vtol=1e-5, itol=1e-6, phase=phase)
                rows = df[df["Component"] == g[idx]._params["name"]]
                e["iref"], e["has_ref"] = cell(rows["Iout (A)"].values[0]), True
            except Exception:
                pass
            finally:
                busy["ref"] = False
        r = orig_solve(self, *a, **kw)
        e["raised"] = False
        return r

    System._solve = tapped
    try:
        with warnings.catch_warnings():
            warnings.simplefilter("ignore")
            df = s.batt_life(battery, cutoff=cutoff, pfunc=P, dfunc=D)
        case["log"] = [[cell(x) for x in row] for row in df[["Time (s)", "Capacity (Ah)", "Voltage (V)", "Resistance (Ohm)"]].itertuples(index=False, name=None)]
    except BaseException as e:
        if isinstance(e, (KeyboardInterrupt, SystemExit)):
            raise
        case["outcome"], case["exc"] = "exc", type(e).__name__
    finally:
        System._solve = orig_solve
    if is_source:
        case["src1"] = [cell(g[idx]._params["vo"]), cell(g[idx]._params["rs"])]
    return case
