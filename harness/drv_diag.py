"""C19: renders diagrams to the dot source (fname=*.raw: no external process), parses them back with
pydot and hands nodes / edges / clusters / attributes to spec/TraceDiag.tla."""
from decwire import excname
import copy
import os
import re
import warnings
from decimal import Decimal

import pydot

from decwire import cell, dec
from project import project, digest

SI = {"f": -15, "p": -12, "n": -9, "u": -6, "\u00b5": -6, "\u03bc": -6, "m": -3, "k": 3, "M": 6, "G": 9}


def unq(s):
    s = str(s)
    if len(s) >= 2 and s[0] == '"' and s[-1] == '"':
        s = s[1:-1].replace('\\"', '"')
    return s


def parse_val(txt):
    """'4.0mW' -> wire number (exact decimal), or None"""
    t = txt.strip()
    if not t.endswith("W"):
        return None
    t = t[:-1]
    exp = 0
    if t and t[-1] in SI:
        exp = SI[t[-1]]
        t = t[:-1]
    try:
        return dec(Decimal(t).scaleb(exp))
    except Exception:
        return None


def attrs_list(d):
    return [[str(k), unq(v)] for k, v in d.items()]


def conf_record(conf):
    def part(d):
        return {"default": attrs_list(d.get("default", {})),
                "over": [[k, attrs_list(v)] for k, v in d.items() if k != "default"]}
    return {"node": part(conf["node"]), "cluster": part(conf["cluster"]), "edge": attrs_list(conf["edge"])}


def random_conf(rng, st):
    from sysloss.diagram import get_conf
    conf = get_conf()
    names = [c["name"] for c in st["comps"]]
    classes = sorted({c["cls"] for c in st["comps"]})
    groups = sorted({c["group"] for c in st["comps"]} - {""})
    colors = ["coral", "darkturquoise", "gold", "gray80", "palegreen"]
    if rng.random() < 0.5:
        conf["node"]["default"]["shape"] = rng.choice(["box", "ellipse", "oval"])
    for cl in classes:
        if rng.random() < 0.4:
            conf["node"][cl] = {"fillcolor": rng.choice(colors)}
            if rng.random() < 0.3:
                conf["node"][cl]["shape"] = "hexagon"
    for n in names:
        if rng.random() < 0.25:
            conf["node"][n] = {rng.choice(["fillcolor", "penwidth", "shape", "fontcolor"]): rng.choice(["red", "2.5", "diamond", "navy"])}
    for g in groups:
        if rng.random() < 0.4:
            conf["cluster"][g] = {"fillcolor": rng.choice(colors), "penwidth": "3"}
    if rng.random() < 0.3:
        conf["edge"]["color"] = "gray40"
    conf["graph"]["rankdir"] = rng.choice(["TB", "LR", "BT", "TB"])
    return conf


def render_case(s, cid, heat, group, conf, tmpdir):
    from sysloss.diagram import make_diag, make_hdiag, get_conf
    st = project(s)
    eff = copy.deepcopy(conf) if conf else get_conf()
    case = {"id": cid, "st": {"comps": [{"name": c["name"], "cls": c["cls"], "group": c["group"], "par": c["par"]} for c in st["comps"]]},
            "group": bool(group), "heat": bool(heat), "outcome": "ok", "exc": "", "conf": conf_record(eff),
            "nodes": [], "clusters": [], "edges": [], "losses": [], "legend": cell(0.0), "haslegend": False,
            "conf0": digest(repr(conf)), "conf1": "", "solve_failed": False,
            "legendnode": "", "hasscale": False, "cold": [0, 0, 0], "warm": [0, 0, 0]}
    path = os.path.join(tmpdir, "d%d.raw" % cid)
    try:
        with warnings.catch_warnings():
            warnings.simplefilter("ignore")
            if heat:
                make_hdiag(s, fname=path, group=group, config=conf if conf else {})
            else:
                make_diag(s, fname=path, group=group, config=conf if conf else {})
    except Exception as e:
        case["outcome"], case["exc"] = "exc", excname(e) + ": " + str(e)[:80]
    case["conf1"] = digest(repr(conf))
    # the loss every label must show: duration-weighted over the phases of the default solve()
    try:
        with warnings.catch_warnings():
            warnings.simplefilter("ignore")
            df = s.solve()
        ph = s.get_sys_phases()
        for c in st["comps"]:
            rows = df[df["Component"] == c["name"]]
            if ph:
                num = sum(float(ph[p]) * float(rows[rows["Phase"] == p]["Loss (W)"].values[0]) for p in ph)
                den = sum(float(v) for v in ph.values())
            else:
                num, den = float(rows["Loss (W)"].values[0]), 1.0
            case["losses"].append({"name": c["name"], "num": cell(num), "den": cell(den)})
    except Exception:
        case["losses"] = [{"name": c["name"], "num": cell(0.0), "den": cell(1.0)} for c in st["comps"]]
        if heat and case["outcome"] == "exc":
            case["solve_failed"] = True
    if case["outcome"] != "ok":
        return case
    g = pydot.graph_from_dot_file(path)[0]
    os.unlink(path)

    def node_rec(n, cluster):
        name = unq(n.get_name())
        a = n.get_attributes()
        rec = {"name": name, "attrs": attrs_list(a), "cluster": cluster, "val": cell(0.0), "hasval": False, "rgb": [0, 0, 0]}
        lab = unq(a.get("label", ""))
        if heat and "\\n" in lab:
            v = parse_val(lab.split("\\n")[-1])
            if v is not None:
                rec["val"], rec["hasval"] = v, True
        fc = unq(a.get("fillcolor", ""))
        m = re.fullmatch(r"#([0-9a-fA-F]{2})([0-9a-fA-F]{2})([0-9a-fA-F]{2})", fc)
        if m:
            rec["rgb"] = [int(x, 16) for x in m.groups()]
        return rec
    skip = {"node", "edge", "graph", "\\n", ""}
    for n in g.get_nodes():
        if unq(n.get_name()) not in skip:
            case["nodes"].append(node_rec(n, ""))
    for sg in g.get_subgraphs():
        a = sg.get_attributes()
        label = unq(a.get("label", ""))
        case["clusters"].append({"label": label, "attrs": attrs_list(a), "name": unq(sg.get_name())})
        for n in sg.get_nodes():
            if unq(n.get_name()) not in skip:
                case["nodes"].append(node_rec(n, label))
    for e in g.get_edges():
        case["edges"].append([unq(e.get_source()), unq(e.get_destination()), attrs_list(e.get_attributes())])
    # the heat-scale legend: the one rendered node that is not a component (whatever it is called); its label shows the
    # maximum loss in one of its fields, its fill the cold -> warm scale the component colours are taken from
    names = {c["name"] for c in st["comps"]}
    case["legendnode"], case["hasscale"], case["cold"], case["warm"] = "", False, [0, 0, 0], [0, 0, 0]
    extra = [n for n in case["nodes"] if n["name"] not in names]
    if heat and len(extra) == 1:
        n = extra[0]
        case["legendnode"] = n["name"]
        a = dict(n["attrs"])
        lab = unq(a.get("label", "")).strip("{}")
        for field in lab.split("|"):
            v = parse_val(field)
            if v is not None:
                case["legend"], case["haslegend"] = v, True
                break
        m = re.fullmatch(r"#([0-9a-fA-F]{2})([0-9a-fA-F]{2})([0-9a-fA-F]{2}):#([0-9a-fA-F]{2})([0-9a-fA-F]{2})([0-9a-fA-F]{2})", unq(a.get("fillcolor", "")))
        if m:
            g6 = [int(x, 16) for x in m.groups()]
            case["cold"], case["warm"], case["hasscale"] = g6[:3], g6[3:], True
    return case
