"""Demonstration that the specification is bound to the code (DESIGN.md 6.4): recorded traces of the real library
are validated by TLC (must be accepted), then ONE recorded field is corrupted at a time and the matching clause -
and no clause of an unrelated property - must fire.  Also the vacuity guard: TLC action coverage of the bounded
models.

    /venv/bin/python harness/selftest.py        exit 0 = every corruption was rejected by the expected clause
"""
import copy
import json
import os
import random
import sys
import warnings

warnings.simplefilter("ignore")
os.environ.setdefault("MPLBACKEND", "Agg")
os.environ.setdefault("TQDM_DISABLE", "1")
HERE = os.path.dirname(os.path.abspath(__file__))
sys.path.insert(0, HERE)

import tlc  # noqa: E402
import gen  # noqa: E402
import drv_solve  # noqa: E402
from check import Ctx, Result  # noqa: E402
from decwire import cell, undec  # noqa: E402


def scale(w, f):
    return cell(float(undec(w)) * f)


def clauses(verd):
    return sorted({v["clause"] for v in verd if not v["clause"].startswith("note.")})


def run_solve(ctx, cases):
    import props_solve
    res = Result()
    props_solve.validate_cases(ctx, res, cases)
    return res.verd


def main():
    ctx = Ctx("selftest", "quick", 7)
    rng = ctx.rng
    rows = []          # (validator, corruption, expected clause(s), fired clauses, ok)

    def expect(validator, what, fired, want_any, forbid_prefixes=()):
        ok = any(w in fired for w in want_any) and not any(c.startswith(p) for c in fired for p in forbid_prefixes)
        rows.append((validator, what, want_any, fired, ok))

    try:
        # ------------------------------------------------------------------ TraceSolve
        import props_solve
        behs = props_solve.build_behaviours(ctx, 60, depths=(7, 10, 13))
        cases = []
        for st in behs:
            s = drv_solve.build_system(st, gen.Gen(rng, neg=0.0, tables=0.2, limits=gen.random_limits), rng)
            c = drv_solve.solve_case(s, len(cases), rail_rep=True, ta=25.0, energy=True)
            if c["outcome"] == "ok":
                cases.append(c)
        base = run_solve(ctx, copy.deepcopy(cases))
        rows.append(("TraceSolve", "unmodified tables of %d systems" % len(cases), ["(none)"], clauses(base), not clauses(base)))

        def pick(pred):
            for c in cases:
                for i, r in enumerate(c["table"]["rows"]):
                    if r["type"] and pred(c, r):
                        return c, i
            return None, None

        def corrupt(what, pred, mut, want, forbid=()):
            c, i = pick(pred)
            if c is None:
                rows.append(("TraceSolve", what, want, ["(no suitable row)"], False))
                return
            c2 = copy.deepcopy(c)
            mut(c2, c2["table"]["rows"][i])
            expect("TraceSolve", what, clauses(run_solve(ctx, [c2])), want, forbid)
        nz = lambda w: float(undec(w)) != 0.0
        corrupt("Vin of a non-source row x 1.001", lambda c, r: r["type"] != "SOURCE" and nz(r["vin"]),
                lambda c, r: r.update(vin=scale(r["vin"], 1.001)), ["C01.Link.Vin"])
        corrupt("Iin of a load row x 1.01", lambda c, r: r["type"] == "LOAD" and nz(r["iin"]),
                lambda c, r: r.update(iin=scale(r["iin"], 1.01)), ["C01.Law.Iin"])
        corrupt("Loss of a converter row + 1 % of its power", lambda c, r: r["type"] == "CONVERTER" and nz(r["pwr"]),
                lambda c, r: r.update(loss=cell(float(undec(r["loss"])) + 0.01 * float(undec(r["pwr"])))), ["C02.Energy.Row"])
        corrupt("Efficiency cell + 0.5", lambda c, r: r["type"] in ("CONVERTER", "LINREG") and nz(r["pwr"]),
                lambda c, r: r.update(eff=cell(float(undec(r["eff"])) - 0.5)), ["C02.Eff"])
        corrupt("24 h energy of a row x 1.01", lambda c, r: nz(r["energy"]) and r["energy"][0] in (0, 1),
                lambda c, r: r.update(energy=scale(r["energy"], 1.01)), ["C07.Energy.Row"])
        corrupt("a warning token added", lambda c, r: r["type"] == "LOAD" and not r["wtok"],
                lambda c, r: r.update(wtok=["vi"], warn="vi"), ["C09.Exact"])

        def total_mut(c, r):
            for x in c["table"]["rows"]:
                if x["comp"] == "System total":
                    x["loss"] = scale(x["loss"], 1.01)
        corrupt("System total loss x 1.01", lambda c, r: True, total_mut, ["C07.Total.Loss"])

        def rail_mut(c, r):
            c["rail"]["rows"][0]["curr"] = scale(c["rail"]["rows"][0]["curr"], 1.02)
        corrupt("current of a rail-report row x 1.02",
                lambda c, r: c["hasrail"] and not c["rail"]["isnone"] and c["rail"]["rows"] and c["rail"]["rows"][0]["rail"]
                and nz(c["rail"]["rows"][0]["curr"]) and any(x["rail"] for x in c["st"]["comps"]),
                rail_mut, ["C08.Sums"])

        # ------------------------------------------------------------------ TraceEdit
        import drv_edit
        from record import Recorder
        rec = Recorder()
        rec.install()
        try:
            sb, _ = tlc.run_sim("SimEdit.tla", "SimEdit.cfg", ctx.work, num=40, depth=14, seed=3)
            drv_edit.replay_sim(rec, sb)
        finally:
            rec.uninstall()
        traces = rec.dump()
        verd, stat, _ = tlc.validate("TraceEdit.tla", "TraceEdit.cfg", tlc.split(copy.deepcopy(traces), 4), ctx.work)
        rows.append(("TraceEdit", "unmodified histories (%d calls)" % sum(len(t["events"]) for t in traces), ["(none)"], clauses(verd), not clauses(verd)))

        def edit_corrupt(what, pred, mut, want):
            for t in traces:
                for k, ev in enumerate(t["events"]):
                    if k > 0 and pred(t, k, ev):
                        t2 = copy.deepcopy(t)
                        mut(t2, k)
                        v, _, _ = tlc.validate("TraceEdit.tla", "TraceEdit.cfg", [[t2]], ctx.work)
                        expect("TraceEdit", what, clauses(v), want)
                        return
            rows.append(("TraceEdit", what, want, ["(no suitable event)"], False))

        def last_state(t, k):
            for j in range(k - 1, -1, -1):
                if not t["events"][j]["after"]["same"]:
                    return copy.deepcopy(t["events"][j]["after"]["st"])

        def rejected_changed(t, k):
            st = last_state(t, k)
            st["comps"][0]["group"] = "corrupted"
            t["events"][k]["after"] = {"same": False, "st": st}
        edit_corrupt("post-state of a rejected call differs from the pre-state",
                     lambda t, k, ev: ev["outcome"] == "exc" and ev["op"] in drv_edit_ops() and last_state(t, k) is not None,
                     rejected_changed, ["C15.Unchanged.State"])

        def wrong_parent(t, k):
            st = t["events"][k]["after"]["st"]
            name = t["events"][k]["args"]["comp"]["name"]
            for c in st["comps"]:
                if c["name"] == name:
                    others = [x["name"] for x in st["comps"] if x["name"] != name and x["cls"] not in ("PLoad", "ILoad", "RLoad") and x["name"] not in c["par"]]
                    c["par"] = [others[0]] if others else []
        edit_corrupt("a component added by an accepted add_comp hangs below another parent",
                     lambda t, k, ev: ev["op"] == "add_comp" and ev["outcome"] == "ok" and not ev["after"]["same"]
                     and len(ev["after"]["st"]["comps"]) >= 3 and not ev["args"]["aslist"],
                     wrong_parent, ["C16.Structure"])

        def dup_rail(t, k):
            st = t["events"][k]["after"]["st"]
            nl = [c for c in st["comps"] if c["cls"] not in ("PLoad", "ILoad", "RLoad")]
            nl[0]["rail"] = nl[1]["rail"] = "dup"
        edit_corrupt("two components carry the same rail after an accepted edit",
                     lambda t, k, ev: ev["outcome"] == "ok" and ev["op"] in drv_edit_ops() and not ev["after"]["same"]
                     and len([c for c in ev["after"]["st"]["comps"] if c["cls"] not in ("PLoad", "ILoad", "RLoad")]) >= 2,
                     dup_rail, ["C14.WF.UniqueRails"])

        # ------------------------------------------------------------------ TraceSolver (sweeps)
        import solvertap
        tap = solvertap.SolverTap()
        tap.install()
        try:
            s = drv_solve.build_system(behs[0], gen.Gen(random.Random(5), neg=0.0, tables=0.0), random.Random(5))
            c = drv_solve.solve_case(s, 0)
            runs = tap.take()
        finally:
            tap.uninstall()
        run = runs[-1]
        run.update(id=1, case=0, has_table=False, tv=[], ti=[], has_nref=False, nref=0)
        v, _, _ = tlc.validate("TraceSolver.tla", "TraceSolver.cfg", [[copy.deepcopy(run)]], ctx.work)
        rows.append(("TraceSolver", "unmodified run of %d sweeps" % len(run["sweeps"]), ["(none)"], clauses(v), not clauses(v)))
        if len(run["sweeps"]) >= 3:
            r2 = copy.deepcopy(run)
            r2["sweeps"] = r2["sweeps"][:-1]           # returned one sweep too early: the last kept sweep is not converged
            r2["end"]["iters"] = len(r2["sweeps"])
            r2["end"]["v"], r2["end"]["i"] = r2["sweeps"][-1]["v0"], r2["sweeps"][-1]["i0"]
            v, _, _ = tlc.validate("TraceSolver.tla", "TraceSolver.cfg", [[r2]], ctx.work)
            expect("TraceSolver", "loop returns one sweep early (intermediate iterate)", clauses(v), ["C03.Sweep.Machine"])
            r3 = copy.deepcopy(run)
            r3["sweeps"] = r3["sweeps"] + [copy.deepcopy(r3["sweeps"][-1])]   # keeps iterating after convergence
            r3["end"]["iters"] = len(r3["sweeps"])
            v, _, _ = tlc.validate("TraceSolver.tla", "TraceSolver.cfg", [[r3]], ctx.work)
            # (allowed by C03 - an implementation may be stricter than asked - and recorded as a note, not a verdict)
            notes = sorted({x["clause"] for x in v if x["clause"].startswith("note.")})
            rows.append(("TraceSolver", "loop performs a sweep after the converged one (no verdict, a note)",
                         ["note.C03.ReturnedAtFirstConverged"], notes + clauses(v),
                         "note.C03.ReturnedAtFirstConverged" in notes and "C03.Sweep.Machine" not in clauses(v)))

        # ------------------------------------------------------------------ TraceReports
        import reports
        s = drv_solve.build_system(behs[1], gen.Gen(random.Random(6), neg=0.0, tables=0.3, limits=gen.random_limits), random.Random(6))
        rc = reports.report_case(s, 0, "selftest")
        v, _, _ = tlc.validate("TraceReports.tla", "TraceReports.cfg", [[copy.deepcopy(rc)]], ctx.work)
        rows.append(("TraceReports", "unmodified params/limits/phases/tree", ["(none)"], clauses(v), not clauses(v)))
        r2 = copy.deepcopy(rc)
        for row in r2["params"]:
            num = [k for k, cl in row["p"].items() if cl["k"] == "c"]
            if num:
                row["p"][num[0]]["v"] = scale(row["p"][num[0]]["v"], 1.5) if float(undec(row["p"][num[0]]["v"])) else cell(1.0)
                break
        v, _, _ = tlc.validate("TraceReports.tla", "TraceReports.cfg", [[r2]], ctx.work)
        expect("TraceReports", "one parameter cell of params() changed", clauses(v), ["C16.ParamsShowConfig"])
        r3 = copy.deepcopy(rc)
        if len(r3["tree"]) > 2:
            r3["tree"] = r3["tree"][:-1]
            v, _, _ = tlc.validate("TraceReports.tla", "TraceReports.cfg", [[r3]], ctx.work)
            expect("TraceReports", "last line of tree() dropped", clauses(v), ["C16.TreeShowsStructure"])

        # ------------------------------------------------------------------ vacuity guard: action coverage of the bounded models
        for mod, cfg in (("MCEdit.tla", "MCEditQ.cfg"), ("Solver.tla", "MCSolver.cfg"), ("Batt.tla", "MCBatt.cfg")):
            m = tlc.run_mc(mod, cfg, ctx.work, workers=4, extra=["-coverage", "1"]) if "extra" in tlc.run_mc.__code__.co_varnames \
                else tlc.run_mc(mod, cfg, ctx.work, workers=4)
            rows.append(("TLC " + mod, "%s: %s distinct states, ok=%s" % (cfg, m.get("distinct"), m.get("ok")), ["ok"], ["ok" if m.get("ok") else "FAILED"], bool(m.get("ok"))))
    finally:
        ctx.close()
    bad = 0
    for validator, what, want, fired, ok in rows:
        print("%-4s %-12s %-70s expected %-28s fired %s" % ("ok" if ok else "FAIL", validator, what[:70], "/".join(want), ", ".join(fired) or "-"))
        bad += 0 if ok else 1
    json.dump([{"validator": a, "corruption": b, "expected": c, "fired": d, "ok": e} for a, b, c, d, e in rows],
              open(os.path.join(os.path.dirname(HERE), "selftest_result.json"), "w"), indent=1)
    print("selftest: %d of %d demonstrations as expected" % (len(rows) - bad, len(rows)))
    return 1 if bad else 0


def drv_edit_ops():
    return ("add_source", "add_comp", "change_comp", "del_comp", "set_sys_phases", "set_comp_phases")


if __name__ == "__main__":
    sys.exit(main())
