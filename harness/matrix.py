"""Numeric systems for the states of spec/MCMatrix.tla (coverage matrix of the numeric checks)."""
import warnings

import sysloss.components as C
from gen import table, _r, _lg

_CACHE = {}


def matrix_states(ctx):
    import tlc
    if "st" not in _CACHE:
        states, cnt = tlc.run_states("MCMatrix.tla", "MCMatrix.cfg", ctx.work, workers=4)
        if not cnt["ok"]:
            raise tlc.TLCError(cnt["out"][-1500:])
        cnt["name"] = "coverage matrix: kind x parameter form x polarity x position x phase situation"
        _CACHE["st"], _CACHE["cnt"] = states, cnt
    return _CACHE["st"], _CACHE["cnt"]


def build(st, rng):
    from sysloss.system import System
    kind, form, pos, ph = st["kind"], st["form"], st["pos"], st["ph"]
    V = _r(rng.uniform(6.0, 30.0), 4) * (-1 if st["sign"] == "neg" else 1)
    av, imax = abs(V), 0.5

    def par(key, f, vin=av):
        if form == "const":
            return _r(f(0.2, vin), 4)
        return table(rng, key, f, vin, imax, dims=1 if form == "t1" else 2)

    def make(name):
        rt = rng.choice([0.0, 12.5])
        if kind == "PLoad":
            return C.PLoad(name, pwr=_r(rng.uniform(0.05, 1.0), 3), pwrs=_r(rng.uniform(1e-3, 1e-2), 3), rt=rt, loss=rng.random() < 0.3)
        if kind == "ILoad":
            return C.ILoad(name, ii=_r(rng.uniform(0.01, 0.2), 3), iis=_r(rng.uniform(1e-4, 1e-3), 3), rt=rt, loss=rng.random() < 0.3)
        if kind == "RLoad":
            return C.RLoad(name, rs=_r(av / rng.uniform(0.01, 0.2), 4), rt=rt, loss=rng.random() < 0.3)
        if kind == "RLoss":
            return C.RLoss(name, rs=_r(rng.uniform(0.01, 0.5), 3), rt=rt)
        if kind == "VLoss":
            return C.VLoss(name, vdrop=par("vdrop", lambda io, vi: 0.2 + 0.3 * io + 0.004 * vi), rt=rt)
        if kind == "Converter":
            vo = _r(rng.uniform(1.0, 5.0), 3) * rng.choice([1, 1, -1])
            return C.Converter(name, vo=vo, eff=par("eff", lambda io, vi: min(0.97, 0.6 + 0.5 * io + 0.004 * vi)),
                               iq=_r(_lg(rng, 1e-5, 1e-3), 3), iis=_r(_lg(rng, 1e-6, 1e-5), 3), rt=rt)
        if kind == "LinReg":
            vo = _r(rng.uniform(0.3, 0.6) * av, 3) * (-1 if V < 0 else 1)
            return C.LinReg(name, vo=vo, vdrop=0.25, ig=par("ig", lambda io, vi: 1e-4 * (1 + 8 * io) * (1 + 0.03 * vi)),
                            iis=_r(_lg(rng, 1e-6, 1e-5), 3), rt=rt)
        if kind == "PSwitch":
            return C.PSwitch(name, rs=_r(rng.uniform(0.01, 0.3), 3), ig=par("ig", lambda io, vi: 1e-4 * (1 + 8 * io) * (1 + 0.03 * vi)),
                             iis=_r(_lg(rng, 1e-6, 1e-5), 3), rt=rt)
        if kind == "PMux":
            rs = rng.choice([_r(rng.uniform(0.01, 0.3), 3), [0.05, 0.11, 0.2, 0.3]])
            return C.PMux(name, rs=rs, ig=par("ig", lambda io, vi: 1e-4 * (1 + 8 * io) * (1 + 0.03 * vi)),
                          iis=_r(_lg(rng, 1e-6, 1e-5), 3), rt=rt)
        if st["mode"] == "diode":
            return C.Rectifier(name, vdrop=par("vdrop", lambda io, vi: 0.2 + 0.3 * io + 0.004 * vi), rt=rt)
        return C.Rectifier(name, rs=_r(rng.uniform(0.005, 0.1), 3), ig=par("ig", lambda io, vi: 1e-4 * (1 + 8 * io) * (1 + 0.03 * vi)),
                           iq=_r(_lg(rng, 1e-6, 1e-4), 3), rt=rt)

    with warnings.catch_warnings():
        warnings.simplefilter("ignore")
        s = System("matrix", C.Source("S", vo=V, rs=rng.choice([0.0, 0.02]) if V > 0 else 0.0))
        dead = rng.choice(["zero", "phase"]) if ph != "none" else "zero"
        sup = "S"
        if kind == "PMux":
            if pos == "single":
                s.add_comp("S", comp=make("X"))
            else:
                s.add_source(C.Source("D", vo=0.0 if dead == "zero" else V * 0.7))
                s.add_comp(["D", "S"] if pos == "first_dead" else ["S", "D"], comp=make("X"))
        else:
            if pos == "below_mux":
                s.add_source(C.Source("D", vo=0.0 if dead == "zero" else V * 0.7))
                s.add_comp(["D", "S"], comp=C.PMux("M", rs=[0.03, 0.06], ig=1e-5))
                sup = "M"
            s.add_comp(sup, comp=make("X"))
        if kind not in ("PLoad", "ILoad", "RLoad"):
            s.add_comp("X", comp=C.ILoad("LI", ii=_r(rng.uniform(0.01, 0.2), 3)))
            s.add_comp("X", comp=C.PLoad("LP", pwr=_r(rng.uniform(0.02, 0.5), 3), pwrs=1e-3))
        if ph != "none":
            s.set_sys_phases({"run": 10.0, "idle": 90.0})
            if "D" in [c for c in s._g.attrs["nodes"]] and dead == "phase":
                s.set_comp_phases("D", ["nonexistent"])
            if ph == "listed":
                s.set_comp_phases("X", ["run", "idle"])
            elif ph == "unlisted":
                s.set_comp_phases("X", ["run"])
            elif ph in ("valued", "absent", "zero"):
                val = {"PLoad": 0.3, "ILoad": 0.05, "RLoad": 220.0}[kind]
                conf = {"run": val}
                if ph == "zero" and kind != "RLoad":
                    conf["idle"] = 0.0
                elif ph == "valued":
                    conf["idle"] = val * 0.5
                s.set_comp_phases("X", conf)
    return s
