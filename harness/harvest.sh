#!/bin/sh
# harvest.sh <worktree> <seed id> <property> "<what it needs to manifest>" "<summary>"
set -e
wt=$1; id=$2; prop=$3; needs=$4; summ=$5
d=/verif/seeded/$id
mkdir -p $d
git -C $wt diff > $d/patch.diff
cp $wt/demo.py $d/demo.py
/venv/bin/python - "$d" "$prop" "$needs" "$summ" <<'PY'
import json,sys
d,prop,needs,summ=sys.argv[1:5]
json.dump({"property":prop,"summary":summ,"needs":needs,"source":"independent sub-agent given only the property text and a scratch worktree","runs":[]},open(d+"/meta.json","w"),indent=1)
PY
grep -n "/tmp/wt" $d/demo.py || true
wc -l $d/patch.diff
