"""Canonical forms of every report of a System, and twin cases (two reports that must agree) for
spec/Twin.tla.  Canonicalisation only removes what the properties declare irrelevant: row order,
node numbering, the order of sibling lists in the save() document."""
from decwire import excname
import contextlib
import hashlib
import io
import json
import math
import warnings

from drv_solve import table_wire
from project import project, save_doc


def _canon_val(v):
    import numpy as np
    if isinstance(v, (np.floating, float)):
        return "nan" if math.isnan(v) else repr(float(v))
    if isinstance(v, (np.integer, int)) and not isinstance(v, bool):
        return repr(float(v))
    if isinstance(v, (list, tuple)):
        return [_canon_val(x) for x in v]
    if isinstance(v, dict):
        return {str(k): _canon_val(x) for k, x in v.items()}
    return str(v)


def df_rows(df, keys=("Component", "Active phase")):
    if df is None:
        return "None"
    rows = [{c: _canon_val(v) for c, v in zip(df.columns, rec)} for rec in df.itertuples(index=False, name=None)]
    rows.sort(key=lambda r: json.dumps([r.get(k, "") for k in keys]))
    return {"cols": list(df.columns), "rows": rows}


def canon_doc(doc):
    """save() document with sibling lists sorted by name and without the version stamp"""
    d = json.loads(json.dumps(doc))
    if "system" in d:
        # the header fields that describe the system; the version stamp and whatever else a writer may add for information
        # (a format number, a summary) are not part of what the document says about the system
        d["system"] = {k: v for k, v in d["system"].items() if k in ("name", "phases", "phase_conf", "groups", "rails")}
        for k in ("phase_conf", "groups", "rails"):
            if isinstance(d["system"].get(k), dict):
                d["system"][k] = dict(sorted(d["system"][k].items()))
    for k, v in d.items():
        if k == "system" or not isinstance(v, dict):
            continue
        ch = v.get("childs", {})
        if isinstance(ch, dict):
            v["childs"] = {p: sorted(ch[p], key=lambda c: c["params"]["name"]) for p in sorted(ch) if ch[p] or True}
    return _canon_val(dict(sorted(d.items())))


def tree_lines(s):
    from project import capture_tree
    txt = capture_tree(s)
    return sorted(l.strip(" │├└─") for l in txt.splitlines() if l.strip())


def dig(x):
    return hashlib.sha1(json.dumps(x, sort_keys=True).encode()).hexdigest()[:20]


def _try(fn):
    try:
        with warnings.catch_warnings():
            warnings.simplefilter("ignore")
            return fn(), None
    except Exception as e:
        from drv_solve import HarnessError, raised_by_harness
        if isinstance(e, HarnessError) or raised_by_harness(e):
            # canonicalising a report is the harness' business: an error there is a machinery failure, not "the report raised"
            raise HarnessError("%s: %s" % (type(e).__name__, e)) from e
        return None, excname(e)


def all_reports(s, solve_kw=None):
    """name -> ("table", wire table) | ("digest", canonical value)"""
    kw = solve_kw or {}
    out = {}
    r, e = _try(lambda: s.solve(**kw))
    out["Solve"] = ("table", table_wire(r) if e is None else {"cols": ["exc:" + e], "rows": [], "isnone": True})
    r, e = _try(lambda: s.rail_rep(**kw))
    out["RailRep"] = ("table", table_wire(r) if e is None else {"cols": ["exc:" + e], "rows": [], "isnone": True})
    r, e = _try(lambda: df_rows(s.params(limits=True)))
    out["Params"] = ("digest", r if e is None else "exc:" + e)
    r, e = _try(lambda: df_rows(s.limits()))
    out["Limits"] = ("digest", r if e is None else "exc:" + e)
    r, e = _try(lambda: df_rows(s.phases()))
    out["Phases"] = ("digest", r if e is None else "exc:" + e)
    r, e = _try(lambda: canon_doc(save_doc(s)))
    out["SaveDoc"] = ("digest", r if e is None else "exc:" + e)
    r, e = _try(lambda: tree_lines(s))
    out["Tree"] = ("digest", r if e is None else "exc:" + e)
    r, e = _try(lambda: diag_sets(s))
    out["Diag"] = ("digest", r if e is None else "exc:" + e)
    return out


def diag_sets(s):
    """make_diag(group=True) rendered to the dot source and parsed back: node names, edges, cluster membership"""
    import os
    import tempfile
    import pydot
    from sysloss.diagram import make_diag

    def unq(x):
        x = str(x)
        return x[1:-1] if len(x) >= 2 and x[0] == '"' and x[-1] == '"' else x
    fd, path = tempfile.mkstemp(suffix=".raw", prefix="sl_diag_")
    os.close(fd)
    try:
        make_diag(s, fname=path, group=True)
        g = pydot.graph_from_dot_file(path)[0]
    finally:
        if os.path.exists(path):
            os.unlink(path)
    skip = {"node", "edge", "graph", "\\n", ""}
    nodes = [unq(n.get_name()) for n in g.get_nodes() if unq(n.get_name()) not in skip]
    clusters = []
    for sg in g.get_subgraphs():
        members = sorted(unq(n.get_name()) for n in sg.get_nodes() if unq(n.get_name()) not in skip)
        nodes += members
        clusters.append([unq(sg.get_attributes().get("label", "")), members])
    edges = sorted([unq(e.get_source()), unq(e.get_destination())] for e in g.get_edges())
    return {"nodes": sorted(nodes), "edges": edges, "clusters": sorted(clusters)}


def twin_cases(prefix, ra, rb, exact, what, id0, only=None):
    """ra, rb: outputs of all_reports for the two systems"""
    cases = []
    for name in ra:
        if only and name not in only:
            continue
        kind, a = ra[name]
        _, b = rb[name]
        c = {"id": id0 + len(cases), "clause": "%s.%s" % (prefix, name), "kind": kind, "exact": bool(exact), "what": what,
             "outcome": "", "exc": ""}
        if kind == "table":
            c["a"], c["b"] = a, b
        else:
            c["a"], c["b"] = dig(a), dig(b)
            if c["a"] != c["b"]:
                c["canon_a"], c["canon_b"] = a, b      # kept for the replay file
        cases.append(c)
    return cases


def state_case(clause, sa, sb, what, cid):
    pa, pb = project(sa), project(sb)
    for p in (pa, pb):
        p.pop("sysname", None)
    return {"id": cid, "clause": clause, "kind": "state", "exact": True, "what": what, "a": pa, "b": pb, "outcome": "", "exc": ""}


# ---------------------------------------------------------------------------------------------------------------
# wire forms of params() / limits() / phases() / tree() for spec/TraceReports.tla
PARAM_KEYS = ["vo", "vdrop", "rs", "rt", "eff", "ig", "iq", "ii", "iis", "pwr", "pwrs", "loss"]
LIMIT_KEYS = ["vi", "vo", "vd", "ii", "io", "pi", "po", "pl", "tr", "tp"]


def _cellrec(v):
    """one cell of a parameter report as a tagged record"""
    import numpy as np
    from decwire import cell
    if v is None or (isinstance(v, str) and v == "") or (isinstance(v, (float, np.floating)) and v != v):
        return {"k": "blank", "v": [2, 0], "l": []}          # (an empty cell: "", None, or pandas' NaN)
    if isinstance(v, (bool, np.bool_)):
        return {"k": "b", "v": [1, 0] if v else [0, 0], "l": []}
    if isinstance(v, str):
        return {"k": "interp" if v == "interp" else "s", "v": [5, 0], "l": []}
    if isinstance(v, (list, tuple)):
        try:
            return {"k": "l", "v": [2, 0], "l": [cell(x) for x in v]}
        except Exception:
            return {"k": "x", "v": [5, 0], "l": []}
    c = cell(v)
    if c[0] in (0, 1):
        return {"k": "c", "v": c, "l": []}
    return {"k": "x", "v": c, "l": []}


def params_wire(df, with_params=True):
    """params(limits=True) or limits(): rows [comp, type, p: key -> cell, l: key -> cell]; columns are recognised by the
    parameter / limit key they start with (the unit text is not part of any statement)"""
    blank = _cellrec("")
    rows = []
    cols = list(df.columns)
    for rec in df.itertuples(index=False, name=None):
        r = {"comp": "", "type": "", "p": {k: blank for k in PARAM_KEYS}, "l": {k: blank for k in LIMIT_KEYS},
             "hasp": bool(with_params)}
        for c, v in zip(cols, rec):
            if c == "Component":
                r["comp"] = str(v)
            elif c == "Type":
                r["type"] = str(v)
            else:
                key = str(c).split()[0]
                is_lim = ("limit" in str(c)) or not with_params
                if is_lim and key in LIMIT_KEYS:
                    r["l"][key] = _cellrec(v)
                elif not is_lim and key in PARAM_KEYS:
                    r["p"][key] = _cellrec(v)
        rows.append(r)
    return rows


def phases_wire(df):
    """phases(): None -> isnone; rows [comp, type, domain, phase, rs, ii, pwr]"""
    if df is None:
        return {"isnone": True, "hasdomain": False, "rows": []}
    rows = []
    # columns are recognised by the word they start with (the unit text is not part of any statement)
    col = {}
    for want in ("Component", "Type", "Domain", "rs", "ii", "pwr"):
        hit = [c for c in df.columns if str(c).split()[0] == want]
        if len(hit) == 1:
            col[want] = hit[0]
    ph = [c for c in df.columns if "phase" in str(c).lower()]
    if len(ph) != 1 or any(k not in col for k in ("Component", "Type", "rs", "ii", "pwr")):
        from drv_solve import HarnessError
        raise HarnessError("phases(): columns not recognised: %r" % (list(df.columns),))
    for rec in df.to_dict("records"):
        rows.append({"comp": str(rec[col["Component"]]), "type": str(rec[col["Type"]]),
                     "domain": str(rec[col["Domain"]]) if "Domain" in col else "",
                     "phase": str(rec[ph[0]]), "rs": _cellrec(rec[col["rs"]]), "ii": _cellrec(rec[col["ii"]]),
                     "pwr": _cellrec(rec[col["pwr"]])})
    return {"isnone": False, "hasdomain": "Domain" in col, "rows": rows}


def tree_wire(s, name=""):
    """tree(): the printed text as a list of [depth, name] in print order (depth 0 = the system name)"""
    from project import capture_tree
    txt = capture_tree(s, name)
    out = []
    for ln in txt.splitlines():
        if not ln.strip():
            continue
        body = ln.lstrip(" │├└─")
        depth = (len(ln) - len(body)) // 4
        out.append([depth, body.rstrip()])
    return out


def savedoc_wire(s):
    """the document save() writes, flattened: system name and phases, and for every component entry its type, parameters
    (tagged like the projection's), limits, the parent(s) it is listed under (a mux: its "parents" list, in order) and
    its entries in the rail / group / phase_conf tables of the document"""
    import json
    import os
    import tempfile
    from decwire import cell, pwire
    from project import conf_wire
    fd, path = tempfile.mkstemp(suffix=".json", prefix="sl_sd_")
    os.close(fd)
    try:
        s.save(path)
        with open(path) as f:
            doc = json.load(f)
    finally:
        try:
            os.unlink(path)
        except OSError:
            pass
    sysd = doc["system"]
    comps = []

    def entry(e, par):
        p = dict(e["params"])
        name = p.pop("name")
        comps.append({"name": name, "type": e["type"], "params": {k: pwire(v) for k, v in p.items()},
                      "limits": [[k, [cell(x) for x in v]] for k, v in e.get("limits", {}).items()], "par": list(par)})
    for key, sec in doc.items():
        if key == "system":
            continue
        entry(sec, sec.get("parents", []))
        for parent, kids in sec.get("childs", {}).items():
            for e in kids:
                entry(e, [parent])
    # (the rail / group / phase tables are optional for from_file: a missing table or entry means "none")
    rails, groups, pconf = sysd.get("rails", {}), sysd.get("groups", {}), sysd.get("phase_conf", {})
    for c in comps:
        c["rail"] = rails.get(c["name"], "")
        c["group"] = groups.get(c["name"], "")
        c["pconf"] = conf_wire(pconf.get(c["name"], {}))
    keys = sorted(set(rails) | set(groups) | set(pconf))
    return {"isnone": False, "sysname": sysd["name"], "sysph": [{"name": str(k), "dur": cell(v)} for k, v in sysd.get("phases", {}).items()],
            "comps": comps, "tablekeys": keys}


def report_case(s, cid, what):
    """one validation case for TraceReports.tla: the projected state and the four reports"""
    from project import project
    st = project(s)
    case = {"id": cid, "what": what, "st": st, "sysname": st.get("sysname", ""), "exc": ""}

    def get(key, fn, dflt):
        try:
            with warnings.catch_warnings():
                warnings.simplefilter("ignore")
                case[key] = fn()
        except Exception as e:
            from drv_solve import HarnessError, raised_by_harness
            if isinstance(e, HarnessError) or raised_by_harness(e):
                # reading a report is the harness' business: an error there is a machinery failure, not "the report raised"
                raise HarnessError("%s: %s: %s" % (key, type(e).__name__, e)) from e
            case[key] = dflt
            case["exc"] += "%s:%s " % (key, excname(e))
    get("params", lambda: params_wire(s.params(limits=True)), [])
    get("limits", lambda: params_wire(s.limits(), with_params=False), [])
    get("phases", lambda: phases_wire(s.phases()), {"isnone": True, "hasdomain": False, "rows": []})
    get("tree", lambda: tree_wire(s), [])
    get("savedoc", lambda: savedoc_wire(s), {"isnone": True, "sysname": "", "sysph": [], "comps": [], "tablekeys": []})
    return case
