#!/bin/sh
# runs every registered quick (or $1 = thorough) check in turn; prints one summary line each
tier=${1:-quick}
for p in C01 C02 C03 C04 C05 C06 C07 C08 C09 C10 C11 C12 C13 C14 C15 C16 C17 C18 C19 C20; do
  out=$(./check $p --tier $tier 2>&1); rc=$?
  echo "$p rc=$rc $(echo "$out" | tail -1)"
  echo "$out" | grep -E "^VIOLATION|MACHINERY" | head -5
done
